#!/usr/bin/env python3
"""tools/keep_seed.py <Cxx> <seed id> <dir> <needs> <status> <what I ran>: store a confirmed seeded change under /verif/seeded/<id>/"""
import json, os, shutil, sys
prop, sid, d, needs, status, ran = sys.argv[1:7]
dst = os.path.join("/verif/seeded", sid)
os.makedirs(dst, exist_ok=True)
shutil.copy(os.path.join(d, "patch.diff"), os.path.join(dst, "patch.diff"))
shutil.copy(os.path.join(d, "demo.py"), os.path.join(dst, "demo.py"))
if os.path.exists(os.path.join(d, "notes.txt")):
    shutil.copy(os.path.join(d, "notes.txt"), os.path.join(dst, "author_notes.txt"))
json.dump({"property": prop, "origin": "independent sub-agent given only the property text and a scratch worktree", "needs_to_manifest": needs, "detection": status, "what_i_ran": ran}, open(os.path.join(dst, "meta.json"), "w"), indent=1)
print("kept", dst)
