#!/bin/bash
# tools/run_all.sh <quick|thorough> [ids...]: run every check once, print exit code and wall time per property
cd "$(dirname "$0")/.." || exit 3
tier=${1:-quick}; shift
ids=${@:-C01 C02 C03 C04 C05 C06 C07 C08 C09 C10 C11 C12 C13 C14 C15 C16 C17 C18 C19 C20}
./setup.sh >/dev/null 2>&1
for p in $ids; do
  t0=$(date +%s)
  VERIF_QUIET=1 ./check $tier $p > /tmp/run_all_$p.log 2>&1
  rc=$?
  t1=$(date +%s)
  echo "$p $tier exit=$rc wall=$((t1-t0))s :: $(grep '^symx' /tmp/run_all_$p.log | tail -1)"
  grep '^VIOLATION\|^INCONCLUSIVE\|^KNOWN-FINDING' /tmp/run_all_$p.log | cut -c1-400 | head -5
done
