#!/usr/bin/env python3
"""Detection self-test (development time only): apply one-line mutants of verde to
/repo's working tree, run the property's check, and restore the tree with
`git checkout`. Usage: tools/canary.py [--scratch] [quick|thorough] [Cxx ...]
With --scratch each mutant is applied in a scratch worktree of /repo's HEAD under /tmp instead
(VERIF_REPO), so that /repo itself is never touched."""
import json, os, subprocess, sys, time

VERIF = os.path.dirname(os.path.dirname(os.path.abspath(__file__)))
CAN = json.load(open(os.path.join(VERIF, "canaries.json")))

def main():
    args = [a for a in sys.argv[1:] if a != "--scratch"]
    scratch = "--scratch" in sys.argv
    root = "/repo"
    if scratch:
        import shutil

        root = "/tmp/canary_%d" % os.getpid()
        subprocess.run(["git", "-C", "/repo", "worktree", "add", "-q", "--detach", root, "HEAD"], check=True)
        shutil.copy("/repo/verde/_version_generated.py", os.path.join(root, "verde", "_version_generated.py"))
    try:
        _run(args, root, scratch)
    finally:
        if scratch:
            subprocess.run(["git", "-C", "/repo", "worktree", "remove", "--force", root])


def _run(args, root, scratch):
    tier = "quick"
    if args and args[0] in ("quick", "thorough"):
        tier = args.pop(0)
    want = set(a.upper() for a in args)
    assert subprocess.run(["git", "-C", "/repo", "status", "--porcelain", "--untracked-files=no"], capture_output=True, text=True).stdout.strip() == "", "/repo not clean"
    rows = []
    for c in CAN:
        if want and c["property"] not in want and c["name"] not in args:
            continue
        path = os.path.join(root, c["file"])
        src = open(path).read()
        if src.count(c["old"]) != 1:
            rows.append((c["property"], c["name"], "SKIP (pattern count %d)" % src.count(c["old"]), 0)); print("%-4s %-45s %-13s" % rows[-1][:3]); continue
        try:
            open(path, "w").write(src.replace(c["old"], c["new"]))
            t = time.time()
            cmd = [os.path.join(VERIF, "check"), tier, c["property"]] + ([c["harness"]] if c.get("harness") else [])
            p = subprocess.run(cmd, capture_output=True, text=True, env=dict(os.environ, **({"VERIF_REPO": root} if scratch else {}), VERIF_QUIET="1", VERIF_EVIDENCE_DIR=os.path.join("/verif", ".work", "evidence")))
            dt = time.time() - t
        finally:
            subprocess.run(["git", "-C", root, "checkout", "--", "."], check=True)
        viol = [l for l in p.stdout.splitlines() if l.startswith("VIOLATION")]
        verdict = "CAUGHT" if p.returncode == 1 and viol else ("INCONCLUSIVE" if p.returncode == 3 else "MISSED")
        rows.append((c["property"], c["name"], verdict, dt))
        print("%-4s %-45s %-13s %.0fs" % rows[-1], flush=True)
        if verdict != "CAUGHT":
            print("\n".join(p.stdout.splitlines()[-6:]))
    caught = sum(1 for r in rows if r[2] == "CAUGHT")
    print("caught %d / %d" % (caught, len(rows)))

main()
