#!/verif/.venv/bin/python
"""Run one (property, harness, cfg index) in-process with tracebacks: tools/debug_job.py C09 blockreduce_filter 9 [quick|thorough]"""
import sys, importlib, json, traceback
sys.path.insert(0, "/verif")
from symx import harness as H, engine as E, npx
prop, hname, idx = sys.argv[1], sys.argv[2], int(sys.argv[3])
tier = sys.argv[4] if len(sys.argv) > 4 else "quick"
mod = importlib.import_module("props.%s" % prop.lower())
h = {x.name: x for x in mod.HARNESSES}[hname]
cfg = h.configs(tier, 0)[idx]
print("cfg", cfg)
orig = H.traceback.extract_tb
def body_debug():
    pass
import symx.harness as HH
_old = HH.Ctx
rec = H.run_job(prop, mod, h, cfg, tier, 0)
for k in ("status", "messages", "stats", "unreproduced"):
    print(k, json.dumps(rec.get(k), default=str)[:3000])
for v in rec["violations"]:
    print("VIOL", v["label"], v["inputs"])
