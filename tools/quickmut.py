#!/usr/bin/env python3
"""Try one textual mutant of verde without touching /repo:
  tools/quickmut.py <Cxx> <file under verde/> <old text> <new text> [harness] [tier]
A scratch worktree of /repo's HEAD is made under /tmp, the first occurrence of <old text> replaced there,
the check run with VERIF_REPO pointing at it (evidence to .work), and the worktree removed."""
import os, shutil, subprocess, sys, time

prop, rel, old, new = sys.argv[1:5]
harness = sys.argv[5] if len(sys.argv) > 5 and sys.argv[5] != "-" else None
tier = sys.argv[6] if len(sys.argv) > 6 else "quick"
V = "/verif"
wt = "/tmp/quickmut_%d" % os.getpid()
subprocess.run(["git", "-C", "/repo", "worktree", "add", "-q", "--detach", wt, "HEAD"], check=True)
try:
    shutil.copy("/repo/verde/_version_generated.py", os.path.join(wt, "verde", "_version_generated.py"))
    path = os.path.join(wt, "verde", rel)
    src = open(path).read()
    old = old.replace("\\n", "\n")
    new = new.replace("\\n", "\n")
    assert old in src, "text not found in " + rel
    open(path, "w").write(src.replace(old, new, 1))
    env = dict(os.environ, VERIF_QUIET="1", VERIF_EVIDENCE_DIR=os.path.join(V, ".work", "evidence"), VERIF_REPO=wt)
    t = time.time()
    cmd = [os.path.join(V, "check"), tier, prop] + ([harness] if harness else [])
    r = subprocess.run(cmd, capture_output=True, text=True, env=env)
    viol = [l for l in r.stdout.splitlines() if l.startswith("VIOLATION")]
    print("mutant %s: %r -> %r | check %s %s: exit %d, %d VIOLATION lines, %.0fs" % (rel, old[:50], new[:50], tier, prop, r.returncode, len(viol), time.time() - t))
    for l in r.stdout.splitlines():
        if l.startswith("  violated claim") or l.startswith("INCONCLUSIVE"):
            print("   ", l[:300])
            break
finally:
    subprocess.run(["git", "-C", "/repo", "worktree", "remove", "--force", wt])
