#!/usr/bin/env python3
"""Run every stored seeded change against the current checks (scratch worktrees, /repo untouched):
tools/seeds_regress.py [quick|thorough] [seed-id-prefix ...]"""
import json, os, subprocess, sys
tier = sys.argv[1] if len(sys.argv) > 1 and sys.argv[1] in ("quick", "thorough") else "quick"
want = [a for a in sys.argv[1:] if a not in ("quick", "thorough")]
root = "/verif/seeded"
res = []
for sid in sorted(os.listdir(root)):
    if want and not any(sid.startswith(w) for w in want):
        continue
    meta = json.load(open(os.path.join(root, sid, "meta.json")))
    p = subprocess.run(["/verif/tools/seedcheck.py", meta["property"], os.path.join(root, sid), tier], capture_output=True, text=True)
    line = [l for l in p.stdout.splitlines() if l.startswith("check ")]
    demo = [l for l in p.stdout.splitlines() if l.startswith("demo")]
    ok = bool(line) and "exit 1," in line[0] and " 0 VIOLATION" not in line[0]
    demo_ok = len(demo) == 2 and demo[0].endswith("exit 0") and "exit 1" in demo[1]
    res.append((sid, ok, demo_ok))
    print("%-45s %-7s demo:%s  %s" % (sid, "CAUGHT" if ok else "MISSED", "ok" if demo_ok else "??", line[0] if line else p.stdout[-200:] + p.stderr[-200:]), flush=True)
print("caught %d / %d" % (sum(1 for r in res if r[1]), len(res)))
