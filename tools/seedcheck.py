#!/usr/bin/env python3
"""Evaluate a seeded change without touching /repo: tools/seedcheck.py <Cxx> <dir with patch.diff and demo.py> [quick|thorough] [more ids...]
A scratch worktree of /repo's HEAD is created under /tmp, the patch applied there, the demonstration run in it
(must fail; must pass on the unchanged worktree) and the checks run with VERIF_REPO pointing at it; the
worktree is removed afterwards. With --in-repo the patch is applied to /repo's working tree instead (and
reverted with git checkout), which is how the registered commands would meet it."""
import os, subprocess, sys, time
args = [a for a in sys.argv[1:] if a != "--in-repo"]
in_repo = "--in-repo" in sys.argv
prop, d = args[0], os.path.abspath(args[1])
tier = args[2] if len(args) > 2 else "quick"
props = [prop] + args[3:]
V = "/verif"
demo = os.path.join(d, "demo.py")
if in_repo:
    wt = "/repo"
    assert subprocess.run(["git", "-C", "/repo", "status", "--porcelain", "--untracked-files=no"], capture_output=True, text=True).stdout.strip() == "", "/repo not clean"
else:
    wt = "/tmp/seedeval_%d" % os.getpid()
    subprocess.run(["git", "-C", "/repo", "worktree", "add", "-q", "--detach", wt, "HEAD"], check=True)
    import shutil

    shutil.copy("/repo/verde/_version_generated.py", os.path.join(wt, "verde", "_version_generated.py"))  # generated, git-ignored
try:
    r0 = subprocess.run(["/venv/bin/python", demo], cwd=wt, capture_output=True, text=True)
    print("demo on unchanged tree: exit", r0.returncode)
    subprocess.run(["git", "-C", wt, "apply", os.path.join(d, "patch.diff")], check=True)
    r1 = subprocess.run(["/venv/bin/python", demo], cwd=wt, capture_output=True, text=True)
    print("demo with the change: exit", r1.returncode, (r1.stdout + r1.stderr).strip().splitlines()[-1:])
    env = dict(os.environ, VERIF_QUIET="1", VERIF_EVIDENCE_DIR=os.path.join(V, ".work", "evidence"))
    if not in_repo:
        env["VERIF_REPO"] = wt
    for p in props:
        t = time.time()
        r = subprocess.run([os.path.join(V, "check"), tier, p], capture_output=True, text=True, env=env)
        viol = [l for l in r.stdout.splitlines() if l.startswith("VIOLATION")]
        print("check %s %s: exit %d, %d VIOLATION lines, %.0fs" % (tier, p, r.returncode, len(viol), time.time() - t))
        for l in r.stdout.splitlines():
            if l.startswith("  violated claim") or l.startswith("INCONCLUSIVE"):
                print("   ", l[:260])
                break
finally:
    if in_repo:
        subprocess.run(["git", "-C", "/repo", "checkout", "--", "."], check=True)
    else:
        subprocess.run(["git", "-C", "/repo", "worktree", "remove", "--force", wt])
