#!/usr/bin/env python3
"""Evaluate a seeded change: tools/seedcheck.py <Cxx> <dir with patch.diff and demo.py> [quick|thorough] [more property ids...]
Applies the patch to /repo's working tree, runs the demonstration (must fail) and the checks, then restores /repo."""
import os, subprocess, sys, time
prop, d = sys.argv[1], sys.argv[2]
tier = sys.argv[3] if len(sys.argv) > 3 else "quick"
props = [prop] + sys.argv[4:]
V = "/verif"
assert subprocess.run(["git", "-C", "/repo", "status", "--porcelain", "--untracked-files=no"], capture_output=True, text=True).stdout.strip() == "", "/repo not clean"
demo = os.path.join(d, "demo.py")
r0 = subprocess.run(["/venv/bin/python", demo], cwd="/repo", capture_output=True, text=True)
print("demo on unchanged tree: exit", r0.returncode)
subprocess.run(["git", "-C", "/repo", "apply", os.path.join(d, "patch.diff")], check=True)
try:
    r1 = subprocess.run(["/venv/bin/python", demo], cwd="/repo", capture_output=True, text=True)
    print("demo with the change: exit", r1.returncode, (r1.stdout + r1.stderr).strip().splitlines()[-1:] )
    for p in props:
        t = time.time()
        r = subprocess.run([os.path.join(V, "check"), tier, p], capture_output=True, text=True, env=dict(os.environ, VERIF_QUIET="1", VERIF_EVIDENCE_DIR=os.path.join("/verif", ".work", "evidence")))
        viol = [l for l in r.stdout.splitlines() if l.startswith("VIOLATION")]
        print("check %s %s: exit %d, %d VIOLATION lines, %.0fs" % (tier, p, r.returncode, len(viol), time.time() - t))
        for l in r.stdout.splitlines():
            if l.startswith("  violated claim") or l.startswith("INCONCLUSIVE"):
                print("   ", l[:260])
                break
finally:
    subprocess.run(["git", "-C", "/repo", "checkout", "--", "."], check=True)
