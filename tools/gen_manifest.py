#!/usr/bin/env python3
"""Regenerate MANIFEST.json from tools/manifest_src.json (claimed properties) + properties.jsonl."""
import json, os
V = os.path.dirname(os.path.dirname(os.path.abspath(__file__)))
src = json.load(open(os.path.join(V, "tools", "manifest_src.json")))
props = [json.loads(l) for l in open(os.path.join(V, "properties.jsonl"))]
checks, na = [], []
for p in props:
    pid = p["id"]
    c = src["claimed"].get(pid)
    if c is None:
        na.append({"property_id": pid, "reason": src["not_applicable"].get(pid, "check not built yet in this tree (work in progress); no claim is made")})
        continue
    checks.append({
        "property_id": pid,
        "quick_cmd": "./check quick %s" % pid,
        "thorough_cmd": "./check thorough %s" % pid,
        "evidence_file": "/verif/evidence/%s.json" % pid,
        "replay_cmd_template": "./check replay {path}",
        "engine": "symx",
        "level_claimed": {"category": "model_checking", "text": c["text"], "design_ref": c.get("design_ref", "DESIGN.md section 3, " + pid)},
        "level_note": c["note"],
        "technique": c.get("technique", "bounded symbolic execution of the real Python functions (symx) with z3/cvc5 validity queries per path; counterexamples replayed on the unstubbed code"),
    })
m = {
    "version": 1,
    "setup_cmd": "./setup.sh",
    "hooks": {"guard": "FATIANDO_VERDE_VERIF", "enable": "no source hooks are needed: checks import verde from /repo's working tree and rebind module globals at run time (FATIANDO_VERDE_VERIF=1 is exported by ./check for uniformity)", "baseline_off_cmd": "cd /repo && /venv/bin/python -m pytest -ra -q -p no:cacheprovider --timeout=900 --continue-on-collection-errors", "source_commits": src.get("source_commits", []), "add_only": True},
    "engines": [{"name": "symx", "path": "/verif/symx", "serves_properties": [c["property_id"] for c in checks], "kind_free_text": "symbolic execution of the real verde functions on z3-term scalars inside numpy object arrays; path forking by re-execution; SMT portfolio z3 5.1 (incremental, one-shot nlsat with Ackermannised UFs) + cvc5 1.4; contract stubs for compiled libraries; concrete replay on unstubbed code"}],
    "checks": checks,
    "notes": src.get("notes", ""),
    "not_applicable": na,
}
json.dump(m, open(os.path.join(V, "MANIFEST.json"), "w"), indent=1)
print("claimed", len(checks), "not_applicable", len(na))
