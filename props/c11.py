"""C11 Blocked cross-validators never split a block and partition the data.

Real functions executed: verde.utils.partition_by_sum (symbolic block
populations, real numpy cumsum/searchsorted/unique on object arrays),
verde.model_selection.BlockKFold / BlockShuffleSplit (_iter_test_indices, split)
with real scikit-learn KFold / ShuffleSplit; block_split replaced by its C08
contract (labels = arbitrary block indices, concretised by forking)."""
import math
import warnings
from fractions import Fraction

import numpy as np
from sklearn.model_selection import ShuffleSplit

import verde as vd
from verde import utils as vu
from verde import model_selection as vms

from symx import engine as E
from symx.engine import And, Or, Not, Implies, eq, le, lt, ge, gt, smax, sabs
from symx.harness import Harness

ASSUMPTIONS = [
    "C08 contract: block_split labels every point with the index of its containing block, so every labelling in [0, B)^n is realisable",
    "scikit-learn KFold / ShuffleSplit / BaseCrossValidator.split run for real",
    "block populations bounded by 64 in the integer run; the real-relaxation run (populations >= 1 real) covers unbounded populations when valid",
]


# --------------------------------------------------------------------------- partition_by_sum
def h_partition(ctx):
    cfg = ctx.cfg
    n, parts = cfg["n"], cfg["parts"]
    if cfg.get("relaxed"):
        sizes = ctx.reals("s", n, 1, None)
    else:
        sizes = ctx.ints("s", n, 1, cfg.get("maxpop", 64))
    total = sum(sizes)
    try:
        idx = vu.partition_by_sum(sizes, parts)
    except ValueError:
        # refusing is allowed, but not when the perfect partition is obvious: equal populations, parts dividing their number
        ctx.claim("equal populations with parts dividing their number are partitioned, not refused", Not(And([eq(sizes[0], v) for v in sizes[1:]])) if n % parts == 0 else True)
        return
    idx = [int(i) for i in idx]
    ctx.claim("parts-1 split points", len(idx) == parts - 1)
    bounds = [0] + idx + [n]
    ok = all(bounds[k] < bounds[k + 1] for k in range(parts))
    ctx.claim("split points strictly increasing inside (0, n): no empty part", ok)
    if not ok:
        return
    smx = smax(list(sizes))
    for k in range(parts):
        part = sum(sizes[bounds[k] : bounds[k + 1]])
        # |S_k - total/parts| <= max_i s_i   (scaled by parts to stay linear)
        ctx.claim("every part's sum is within one block population of total/parts", And(le(part * parts - total, smx * parts), le(total - part * parts, smx * parts)))


def h_partition_errors(ctx):
    sizes = ctx.ints("s", 3, 1, 9)
    for parts in (4, 5):
        try:
            vu.partition_by_sum(sizes, parts)
            ctx.claim("more parts than elements rejected", False)
        except ValueError:
            ctx.claim("more parts than elements rejected", True)


# --------------------------------------------------------------------------- cross-validators
class _Labels:
    "block_split contract stub: returns the concretised labels planted by the harness"

    def __init__(self, labels):
        self.labels = labels
        self.calls = 0
        self.seen = []

    def __call__(self, coordinates, spacing=None, adjust="spacing", region=None, shape=None):
        self.calls += 1
        self.seen.append({"coordinates": coordinates, "spacing": spacing, "shape": shape, "region": region, "adjust": adjust})
        return None, np.array(self.labels, dtype=int)


def _labels(ctx, n, nblocks):
    ls = [ctx.integer("L_%d" % i, 0, nblocks - 1) for i in range(n)]
    return [int(l) for l in ls]


def _points(n):
    "distinct concrete locations for the feature matrix (their block labels are planted, so only their identity matters)"
    return np.array([[0.5 + 1.25 * i, 20.0 - 2.5 * i] for i in range(n)])


def _geom(cfg):
    g = cfg.get("geom") or {"shape": (2, 2)}
    return {k: tuple(v) if isinstance(v, (list, tuple)) else v for k, v in g.items()}


def _forwarding_claim(ctx, stub, X, geom):
    "every block_split call got (easting, northing) = the two columns of X, and the splitter's own shape/spacing"
    ok = len(stub.seen) > 0
    for c in stub.seen:
        co = c["coordinates"]
        ok = ok and len(co) == 2 and np.array_equal(np.asarray(co[0], dtype=float), X[:, 0]) and np.array_equal(np.asarray(co[1], dtype=float), X[:, 1])
        for key in ("shape", "spacing"):
            want = geom.get(key)
            got = c[key]
            ok = ok and ((got is None) if want is None else (got is not None and tuple(np.atleast_1d(got)) == tuple(np.atleast_1d(want))))
    ctx.claim("blocks are built from the feature matrix columns (easting, northing) with the splitter's own shape/spacing", bool(ok))


def _with_block_split(labels, fn):
    "plant the labels in every verde module that binds the name block_split"
    import sys

    stub = _Labels(labels) if not isinstance(labels, _Labels) else labels
    saved = []
    for name, mod in list(sys.modules.items()):
        if name.startswith("verde") and mod is not None and "block_split" in getattr(mod, "__dict__", {}):
            saved.append((mod, mod.__dict__["block_split"]))
            mod.block_split = stub
    try:
        return fn(), stub
    finally:
        for mod, oldf in saved:
            mod.block_split = oldf


def _common_split_claims(ctx, splits, labels, n):
    labels = np.asarray(labels)
    for train, test in splits:
        train = np.asarray(train)
        test = np.asarray(test)
        ctx.claim("train and test partition the sample indices", And(sorted(list(train) + list(test)) == list(range(n)), len(set(train) & set(test)) == 0))
        ctx.claim("no block contributes points to both sides", len(set(labels[train]) & set(labels[test])) == 0)
        ctx.claim("test set is not empty", len(test) > 0)


def h_blockkfold(ctx):
    cfg = ctx.cfg
    n, nblocks, n_splits = cfg["n"], cfg["blocks"], cfg["n_splits"]
    labels = list(cfg["fixed_labels"]) if cfg.get("fixed_labels") else _labels(ctx, n, nblocks)
    occupied = sorted(set(labels))
    X = _points(n)
    geom = _geom(cfg)
    if cfg.get("defaults"):
        # documented defaults: n_splits=5, shuffle=False, balance=True (the expectations below use cfg's values)
        kw = dict(geom)
    else:
        kw = dict(geom, n_splits=n_splits, shuffle=cfg["shuffle"], balance=cfg["balance"], random_state=cfg.get("seed"))

    def run():
        with warnings.catch_warnings(record=True) as rec:
            warnings.simplefilter("always")
            out = list(vd.BlockKFold(**kw).split(X))
        return out, [w for w in rec if issubclass(w.category, UserWarning) and "balance" in str(w.message)]

    try:
        (splits, warned), stub = _with_block_split(labels, run)
    except ValueError:
        ctx.claim("rejected only when n_splits exceeds the number of occupied blocks", n_splits > len(occupied))
        return
    ctx.claim("accepted only when n_splits <= occupied blocks", n_splits <= len(occupied))
    _forwarding_claim(ctx, stub, X, geom)
    ctx.claim("exactly n_splits folds", len(splits) == n_splits)
    _common_split_claims(ctx, splits, labels, n)
    tests = [list(t) for _, t in splits]
    allt = sorted(i for t in tests for i in t)
    ctx.claim("test folds are pairwise disjoint and cover every sample once", allt == list(range(n)))
    counts = {b: labels.count(b) for b in occupied}
    if cfg["balance"] and not warned:
        mx = max(counts.values())
        for t in tests:
            ctx.claim("balanced folds: point count within one block population of n/n_splits", abs(len(t) * n_splits - n) <= mx * n_splits)
    else:
        nb = [len(set(labels[i] for i in t)) for t in tests]
        ctx.claim("unbalanced / fallback folds hold equal block counts (+-1)", max(nb) - min(nb) <= 1)
    if cfg["balance"] and (not cfg["shuffle"] or cfg.get("seed") is not None):
        # independent derivation of the folds from the verified partition_by_sum
        ids = np.unique(labels)
        if cfg["shuffle"]:
            np.random.RandomState(cfg["seed"]).shuffle(ids)
        sizes = [counts[b] for b in ids]
        try:
            pts = vu.partition_by_sum(sizes, n_splits)
            expect = [sorted(i for i in range(n) if labels[i] in set(part)) for part in np.split(ids, pts)]
            ctx.claim("balancing is used (no warning) whenever partition_by_sum finds split points for the block populations", not warned)
            ctx.claim("balanced folds are the partition_by_sum groups of consecutive blocks", [sorted(t) for t in tests] == expect)
        except ValueError:
            ctx.claim("falling back to equal block counts warns", bool(warned))
    # the same cross-validator object reused on another point set (same size and extent, other blocks)
    other = labels[::-1]
    if sorted(set(other)) == occupied and n_splits <= len(occupied):
        cv = vd.BlockKFold(**kw)
        planted = _Labels(labels)

        def twice():
            with warnings.catch_warnings():
                warnings.simplefilter("ignore")
                list(cv.split(X))
                planted.labels = other
                return list(cv.split(X))

        reused, _ = _with_block_split(planted, twice)

        def fresh():
            with warnings.catch_warnings():
                warnings.simplefilter("ignore")
                return list(vd.BlockKFold(**kw).split(X))

        ref, _ = _with_block_split(other, fresh)
        if not cfg["shuffle"] or cfg.get("seed") is not None:
            ctx.claim("a cross-validator that already split other data behaves like a fresh one", And(len(reused) == len(ref), all(list(a[0]) == list(b[0]) and list(a[1]) == list(b[1]) for a, b in zip(reused, ref))))
        for train, test in reused:
            ctx.claim("reused cross-validator: no block on both sides", len(set(np.asarray(other)[train]) & set(np.asarray(other)[test])) == 0)
    # reproducibility for a fixed random_state
    (splits2, _w), _ = _with_block_split(labels, run)
    same = len(splits2) == len(splits) and all(list(a[0]) == list(b[0]) and list(a[1]) == list(b[1]) for a, b in zip(splits, splits2))
    ctx.claim("same random_state gives identical folds", same)


def h_blockshuffle(ctx):
    cfg = ctx.cfg
    n, nblocks = cfg["n"], cfg["blocks"]
    labels = list(cfg["fixed_labels"]) if cfg.get("fixed_labels") else _labels(ctx, n, nblocks)
    occupied = sorted(set(labels))
    ctx.assume(len(occupied) >= 2)
    X = _points(n)
    geom = _geom(cfg)
    if cfg.get("defaults"):
        # documented defaults: n_splits=10, test_size=0.1, train_size=None, balancing=10
        kw = dict(geom, random_state=cfg["seed"])
    else:
        kw = dict(geom, n_splits=cfg["n_splits"], test_size=cfg["test_size"], train_size=cfg.get("train_size"), random_state=cfg["seed"], balancing=cfg["balancing"])

    def run():
        return list(vd.BlockShuffleSplit(**kw).split(X))

    nb = len(occupied)
    ts = cfg["test_size"]
    trs = cfg.get("train_size")
    n_train = None if trs is None else (math.floor(trs * nb) if isinstance(trs, float) else trs)
    if ts is None:
        # scikit-learn: test_size defaults to the complement of train_size (0.1 only if both are None)
        n_test = nb - n_train if n_train is not None else math.ceil(0.1 * nb)
    else:
        n_test = math.ceil(ts * nb) if isinstance(ts, float) else ts
    if n_train is None:
        n_train = nb - n_test
    try:
        splits, stub = _with_block_split(labels, run)
    except ValueError:
        ctx.claim("rejected only when the prescribed block counts are impossible", n_test >= nb or n_test <= 0 or n_train <= 0 or n_train + n_test > nb)
        return
    ctx.claim("n_splits splits", len(splits) == cfg["n_splits"])
    _forwarding_claim(ctx, stub, X, geom)
    _common_split_claims(ctx, splits, labels, n)
    labs = np.asarray(labels)
    for train, test in splits:
        ctx.claim("tests the number of blocks test_size prescribes", len(set(labs[test])) == n_test)
        if trs is not None:
            pass
    # best point-balanced of its candidate shuffles (independent re-derivation with real ShuffleSplit)
    block_ids = np.array(occupied)
    draws = list(ShuffleSplit(n_splits=cfg["n_splits"] * cfg["balancing"], test_size=ts, train_size=trs, random_state=cfg["seed"]).split(block_ids))
    for k, (train, test) in enumerate(splits):
        cands = draws[k * cfg["balancing"] : (k + 1) * cfg["balancing"]]
        imb = []
        for trb, teb in cands:
            tr_pts = int(np.isin(labs, block_ids[trb]).sum())
            te_pts = int(np.isin(labs, block_ids[teb]).sum())
            imb.append(abs(Fraction(tr_pts, te_pts) - Fraction(len(trb), len(teb))))
        best = min(imb)
        mine_blocks = set(labs[test])
        ok = any(set(block_ids[teb]) == mine_blocks and imb[j] == best for j, (trb, teb) in enumerate(cands))
        ctx.claim("the yielded split is a best point-balanced candidate of its shuffles", ok)
    splits2, _ = _with_block_split(labels, run)
    same = all(list(a[0]) == list(b[0]) and list(a[1]) == list(b[1]) for a, b in zip(splits, splits2))
    ctx.claim("same random_state gives identical splits", same)


def _cfg_partition(tier, seed):
    out = []
    ns = (3, 4, 5) if tier == "quick" else (2, 3, 4, 5, 6, 7)
    for n in ns:
        for parts in range(2, n + 1):
            if tier == "quick" and n == 5 and parts == 4:
                continue
            if tier == "thorough" and n == 7 and parts in (4, 5):
                continue  # 7 blocks into 4-5 parts: > 15 min per job
            out.append({"n": n, "parts": parts, "maxpop": 64})
    for n, parts in ((3, 2), (4, 2), (4, 3)) if tier == "quick" else ((3, 2), (4, 2), (4, 3), (5, 2), (5, 3)):
        out.append({"n": n, "parts": parts, "relaxed": True})
    return out


def _cfg_kfold(tier, seed):
    out = []
    if tier == "quick":
        for n_splits in (2, 3):
            for shuffle, balance in ((False, True), (True, False)):
                out.append({"n": 4, "blocks": 3, "n_splits": n_splits, "shuffle": shuffle, "balance": balance, "seed": 3})
        out.append({"n": 5, "blocks": 3, "n_splits": 2, "shuffle": False, "balance": True, "seed": None})
        out.append({"n": 5, "blocks": 3, "n_splits": 2, "shuffle": True, "balance": True, "seed": 8})
        out.append({"n": 5, "blocks": 3, "n_splits": 2, "shuffle": True, "balance": True, "seed": 1})
        out.append({"n": 4, "blocks": 3, "n_splits": 2, "shuffle": False, "balance": False, "seed": None, "geom": {"shape": (2, 3)}})
        out.append({"n": 4, "blocks": 3, "n_splits": 3, "shuffle": True, "balance": True, "seed": 4, "geom": {"spacing": (1.5, 2.5)}})
        out.append({"n": 7, "blocks": 6, "n_splits": 5, "shuffle": False, "balance": True, "seed": None, "defaults": True, "fixed_labels": [0, 1, 2, 3, 4, 5, 5], "geom": {"shape": (3, 2)}})
    else:
        for n, blocks in ((5, 4), (6, 3), (6, 4)):
            for n_splits in range(2, blocks + 1):
                for shuffle in (False, True):
                    for balance in (False, True):
                        out.append({"n": n, "blocks": blocks, "n_splits": n_splits, "shuffle": shuffle, "balance": balance, "seed": seed + 11 if shuffle else None})
    return out


def _cfg_shuffle(tier, seed):
    if tier == "quick":
        return [
            {"n": 4, "blocks": 3, "n_splits": 2, "test_size": 0.34, "seed": 1, "balancing": 3},
            {"n": 4, "blocks": 4, "n_splits": 1, "test_size": 0.5, "seed": 5, "balancing": 1},
            {"n": 4, "blocks": 4, "n_splits": 2, "test_size": None, "train_size": 0.5, "seed": 2, "balancing": 2},
            {"n": 4, "blocks": 4, "n_splits": 1, "test_size": None, "train_size": 1, "seed": 4, "balancing": 1},
            {"n": 4, "blocks": 3, "n_splits": 1, "test_size": 1, "train_size": 2, "seed": 6, "balancing": 2, "geom": {"spacing": (1.5, 2.5)}},
            {"n": 5, "blocks": 4, "n_splits": 1, "test_size": 1, "train_size": 2, "seed": 9, "balancing": 3},
            {"n": 5, "blocks": 4, "n_splits": 10, "test_size": 0.1, "seed": 7, "balancing": 10, "defaults": True, "fixed_labels": [0, 1, 2, 3, 3], "geom": {"shape": (2, 3)}},
        ]
    out = []
    for n, blocks in ((5, 4), (6, 4), (6, 3)):
        for ts in (0.1, 0.3, 0.5, 0.75, 2):
            for balancing in (1, 2, 3):
                out.append({"n": n, "blocks": blocks, "n_splits": 2, "test_size": ts, "seed": seed + balancing, "balancing": balancing})
    out.append({"n": 5, "blocks": 4, "n_splits": 2, "test_size": 0.25, "train_size": 0.5, "seed": seed, "balancing": 2})
    out.append({"n": 6, "blocks": 4, "n_splits": 2, "test_size": None, "train_size": 0.5, "seed": seed + 1, "balancing": 2})
    out.append({"n": 5, "blocks": 4, "n_splits": 2, "test_size": None, "train_size": 2, "seed": seed + 2, "balancing": 1})
    out.append({"n": 5, "blocks": 4, "n_splits": 2, "test_size": None, "seed": seed + 3, "balancing": 1})
    return out


HARNESSES = [
    Harness(
        "partition_by_sum",
        h_partition,
        _cfg_partition,
        bounds="n <= 5 (quick) / 7 (thorough) blocks with symbolic integer populations in 1..64, parts 2..n; plus real-relaxed populations >= 1 (unbounded) for n <= 4 / 5",
        outside="more than 7 blocks; populations above 64 outside the relaxed configurations",
        timeout_s=900,
    ),
    Harness("partition_errors", h_partition_errors, {"quick": [{}]}, bounds="3 symbolic populations, parts 4 and 5"),
    Harness(
        "blockkfold",
        h_blockkfold,
        _cfg_kfold,
        bounds="n <= 5 (quick) / 6 (thorough) samples with symbolic block labels in [0, B), B <= 3 / 4 (every labelling forked by the solver); n_splits 2..B; shuffle/balance on/off; shape (2,2)/(2,3)/(3,2) or spacing; one all-defaults splitter on 7 samples in 6 fixed blocks",
        stubs=["verde.model_selection.block_split -> labels planted by the harness (C08 contract)"],
        outside="n > 6, B > 4; that labels come from real coordinates is C08's claim",
        timeout_s=900,
    ),
    Harness(
        "blockshufflesplit",
        h_blockshuffle,
        _cfg_shuffle,
        bounds="n <= 4 / 6 samples, B <= 4 blocks, every labelling with >= 2 occupied blocks; test sizes 0.1..0.75 and an absolute count; balancing 1..3; seeds from VERIF_SEED; shape or spacing; one all-defaults splitter on fixed labels",
        stubs=["verde.model_selection.block_split -> labels planted by the harness (C08 contract)"],
        timeout_s=900,
    ),
]
