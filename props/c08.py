"""C08 block_split assigns every point to the one block that contains it.

Real functions executed: verde.coordinates.block_split, grid_coordinates,
line_coordinates, spacing_to_size, get_region; verde.utils.kdtree;
verde.base.utils.check_coordinates, n_1d_arrays. scipy's cKDTree is replaced by
its nearest-neighbour contract (StubKDTree)."""
from fractions import Fraction

import numpy as np

from verde import coordinates as vc

from symx import stubs
from symx import engine as E
from symx.engine import And, Or, Not, Implies, eq, le, lt, ge, gt
from symx.harness import Harness

HALF = Fraction(1, 2)
ASSUMPTIONS = [
    "cKDTree.query returns a nearest point in Euclidean distance (ties free) - OUT-LIB, validated by the witness replays against the real cKDTree",
    "exact real arithmetic: points within round-off of a block edge are outside the claim (OUT-FP)",
    "pykdtree is not installed; the cKDTree branch of verde.utils.kdtree is what runs",
]


def _globals(cfg):
    return {("verde.utils", "cKDTree"): stubs.StubKDTree}


def _points(ctx, cfg):
    sh = tuple(cfg["pshape"])
    e, n = ctx.reals("e", sh), ctx.reals("n", sh)
    if cfg.get("mem") == "F":
        e, n = np.asfortranarray(e), np.asfortranarray(n)
    elif cfg.get("mem") == "T":
        e, n = np.ascontiguousarray(e.T).T, np.ascontiguousarray(n.T).T
    return e, n


def _claims(ctx, blocks, labels, e, n, w, s, we, hn, ne, nn, nondeg=True):
    ctx.claim("two 1-D block coordinate arrays, one entry per block", And(len(blocks) == 2, np.ndim(blocks[0]) == 1, len(blocks[0]) == ne * nn, len(blocks[1]) == ne * nn))
    if len(blocks[0]) != ne * nn:
        return
    for i in range(nn):
        for j in range(ne):
            k = i * ne + j
            ctx.claim("block k=i*n_east+j is centred at (W+(j+1/2)w, S+(i+1/2)h): row-major from the south-west", And(eq(blocks[0][k], w + (j + HALF) * we), eq(blocks[1][k], s + (i + HALF) * hn)))
    ev, nv = e.ravel(), n.ravel()
    labels = np.asarray(labels)
    ctx.claim("one label per point, in raveled input order", labels.shape == (ev.size,))
    if labels.shape != (ev.size,):
        return
    for p in range(ev.size):
        L = int(labels[p])
        ctx.claim("label is a valid block index", 0 <= L < ne * nn)
        if not nondeg:
            continue
        for i in range(nn):
            for j in range(ne):
                k = i * ne + j
                if k == L:
                    continue
                col = And(True if j == 0 else gt(ev[p], w + j * we), True if j == ne - 1 else lt(ev[p], w + (j + 1) * we))
                row = And(True if i == 0 else gt(nv[p], s + i * hn), True if i == nn - 1 else lt(nv[p], s + (i + 1) * hn))
                ctx.claim("a point strictly inside block (i,j) (or beyond the region next to that border block) is not labelled with another block", Not(And(col, row)))


def h_shape(ctx):
    cfg = ctx.cfg
    e, n = _points(ctx, cfg)
    nn, ne = cfg["shape"]
    if cfg["region"] == "given":
        w, ee, s, no = ctx.real("W"), ctx.real("E"), ctx.real("S"), ctx.real("N")
        ctx.assume(w < ee)
        ctx.assume(s < no)
        region = (w, ee, s, no)
        # a third (vertical) coordinate is ignored
        blocks, labels = vc.block_split((e, n, ctx.reals("up", e.shape)) if cfg.get("extra") else (e, n), shape=(nn, ne), region=region)
    else:
        blocks, labels = vc.block_split((e, n), shape=(nn, ne))
        w, ee, s, no = vc.get_region((e, n))
        ctx.assume(w < ee)
        ctx.assume(s < no)
    _claims(ctx, blocks, labels, e, n, w, s, (ee - w) / ne, (no - s) / nn, ne, nn)


def h_spacing(ctx):
    cfg = ctx.cfg
    e, n = _points(ctx, cfg)
    w, ee, s, no = ctx.real("W"), ctx.real("E"), ctx.real("S"), ctx.real("N")
    ctx.assume(w < ee)
    ctx.assume(s < no)
    if cfg["per_direction"]:
        sn, se = ctx.real("spacing_n"), ctx.real("spacing_e")
        spacing = (sn, se)
    else:
        sn = se = ctx.real("spacing")
        spacing = sn
    ctx.assume(sn > 0)
    ctx.assume(se > 0)
    ctx.assume(ee - w <= se * Fraction(cfg["maxq"]))
    ctx.assume(no - s <= sn * Fraction(cfg["maxq"]))
    if cfg["per_direction"]:
        # bound: each extent is also at most 2 maxq of the *other* spacing, so that an implementation pairing the spacings
        # with the wrong axes still yields a bounded number of blocks (and a violated claim instead of a timeout)
        ctx.assume(ee - w <= sn * Fraction(cfg["maxq"]) * 2)
        ctx.assume(no - s <= se * Fraction(cfg["maxq"]) * 2)
        ctx.assume(sn <= se * 4)
        ctx.assume(se <= sn * 4)
    if cfg.get("region") == "inferred":
        # no region given: the blocks tile the bounding box of the points themselves
        ctx.assume(And(eq(w, E.smin(list(e.ravel()))), eq(ee, E.smax(list(e.ravel()))), eq(s, E.smin(list(n.ravel()))), eq(no, E.smax(list(n.ravel())))))
        blocks, labels = vc.block_split((e, n), spacing=spacing, adjust=cfg["adjust"])
    else:
        blocks, labels = vc.block_split((e, n), spacing=spacing, adjust=cfg["adjust"], region=(w, ee, s, no))
    # the block layout (n_north, n_east) is the one grid_coordinates(pixel_register=True)
    # derives from the same arguments (its node-count rule is C07's claim)
    ref = vc.grid_coordinates((w, ee, s, no), spacing=spacing, adjust=cfg["adjust"], pixel_register=True)
    nn, ne = ref[0].shape
    if cfg["adjust"] == "spacing":
        we, hn = (ee - w) / ne, (no - s) / nn
    else:
        we, hn = se, sn
    _claims(ctx, blocks, labels, e, n, w, s, we, hn, ne, nn)


def _cfg_shape(tier, seed):
    out = []
    if tier == "quick":
        out = [
            {"shape": (2, 2), "pshape": (1,), "region": "given"},
            {"shape": (1, 3), "pshape": (1,), "region": "given"},
            {"shape": (2, 1), "pshape": (2,), "region": "inferred"},
            {"shape": (2, 3), "pshape": (1,), "region": "given"},
            {"shape": (1, 2), "pshape": (2, 2), "region": "given", "mem": "F"},
            {"shape": (2, 2), "pshape": (1, 2), "region": "given", "extra": True},
            {"shape": (2, 1), "pshape": (3,), "region": "inferred"},
        ]
    else:
        for sh in [(1, 1), (1, 3), (3, 1), (2, 2), (2, 3), (3, 2)]:
            out.append({"shape": sh, "pshape": (1,), "region": "given"})
        for sh in [(2, 2), (1, 3), (2, 3)]:
            out.append({"shape": sh, "pshape": (2,), "region": "given"})
            out.append({"shape": sh, "pshape": (2,), "region": "inferred"})
        out.append({"shape": (2, 2), "pshape": (1, 2), "region": "given"})
        out.append({"shape": (1, 2), "pshape": (2, 2), "region": "given", "mem": "T"})
        out.append({"shape": (2, 1), "pshape": (2, 2), "region": "inferred", "mem": "F"})
        out.append({"shape": (2, 2), "pshape": (3,), "region": "inferred"})
    return out


def _cfg_spacing(tier, seed):
    if tier == "quick":
        return [
            {"adjust": "spacing", "per_direction": False, "pshape": (1,), "maxq": "2"},
            {"adjust": "region", "per_direction": False, "pshape": (1,), "maxq": "2"},
            {"adjust": "region", "per_direction": True, "pshape": (1,), "maxq": "3/2"},
            {"adjust": "spacing", "per_direction": True, "pshape": (2,), "maxq": "3/2", "region": "inferred"},
        ]
    out = []
    for adjust in ("spacing", "region"):
        for per in (False, True):
            out.append({"adjust": adjust, "per_direction": per, "pshape": (1,), "maxq": "5/2"})
    out.append({"adjust": "spacing", "per_direction": False, "pshape": (2,), "maxq": "2"})
    out.append({"adjust": "spacing", "per_direction": True, "pshape": (2,), "maxq": "2", "region": "inferred"})
    out.append({"adjust": "region", "per_direction": False, "pshape": (2,), "maxq": "3/2", "region": "inferred"})
    return out


HARNESSES = [
    Harness(
        "shape",
        h_shape,
        _cfg_shape,
        bounds="region symbolic (given, W<E, S<N) or inferred from the points; 1-3 fully symbolic points (inside, on the border or outside the region), 1-D or (1,2) arrays; block layouts up to 2x3 / 3x2 incl. single row/column",
        stubs=["scipy.spatial.cKDTree -> StubKDTree (nearest-neighbour contract)"],
        extra_globals=_globals,
        engine={"oneshot": True, "timeout_ms": 30000},
        outside="points exactly on a shared block edge (either neighbour allowed); OUT-LIB; OUT-FP",
        timeout_s=900,
    ),
    Harness(
        "spacing",
        h_spacing,
        _cfg_spacing,
        bounds="symbolic region and spacing (scalar or per direction) with extent/spacing <= 2 (quick) / 2.5 (thorough); both adjust modes; 1-2 symbolic points",
        stubs=["scipy.spatial.cKDTree -> StubKDTree (nearest-neighbour contract)"],
        extra_globals=_globals,
        engine={"oneshot": True, "timeout_ms": 30000},
        timeout_s=900,
    ),
]
