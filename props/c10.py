"""C10 BlockMean outputs means and [0,1] weights by the documented rule.

Real functions executed: verde.utils.variance_to_weights (exact reals and
bit-precise binary64), verde.blockreduce.BlockMean.filter with its three
aggregation paths, BlockReduce._block_coordinates, attach_weights, real pandas
groupby/aggregate/apply on object columns."""
from fractions import Fraction

import numpy as np

import verde as vd
from verde import utils as vu
from verde import blockreduce as vb

from symx import stubs, symfp, npx
from symx import engine as E
from symx.engine import And, Or, Not, Implies, eq, le, lt, ge, gt, smin, CBool
from symx.symfp import f_same, f_isnan, f_le, f_lt, f_gt, f_eq, SymFP
from symx.harness import Harness

ASSUMPTIONS = [
    "variance_to_weights: exact reals in the Real harness; IEEE-754 binary64 in the fp64 harness (np.nan_to_num modelled as NaN->0, +-inf->+-DBL_MAX, writing into its argument when copy=False)",
    "BlockMean.filter: block_split replaced by the C08 contract; variance_to_weights cut out by a recorder in the symbolic run (it is verified on its own) and run for real in the replay",
    "the unweighted block variance is accepted with ddof 0 or ddof 1 (same for every block)",
    "pandas groupby/aggregate/apply run for real; np.average/np.var given a pandas Series take .values first",
]


# --------------------------------------------------------------------------- variance_to_weights
def h_v2w_real(ctx):
    cfg = ctx.cfg
    ncomp, n = cfg["ncomp"], cfg["n"]
    tol = ctx.real("tol", 0, None)
    vs = [ctx.reals("v%d" % c, tuple(n) if isinstance(n, (list, tuple)) else n) for c in range(ncomp)]
    before = [[x for x in v.ravel()] for v in vs]
    for v in vs:
        v.setflags(write=False)
    arg = tuple(vs) if ncomp > 1 else vs[0]
    out = vu.variance_to_weights(arg, tol=tol)
    if ncomp > 1:
        ctx.claim("tuple in, tuple out", isinstance(out, tuple) and len(out) == ncomp)
        outs = list(out)
    else:
        ctx.claim("single array in, single array out", not isinstance(out, tuple))
        outs = [out]
    for v, b, w in zip(vs, before, outs):
        ctx.claim("shape preserved", np.shape(w) == v.shape)
        for x, y in zip(v.ravel(), b):
            ctx.claim("input not modified", x is y if ctx.sym else eq(x, y))
        wv = list(np.asarray(w).ravel())
        pos = [x for x in b]
        anypos = Or([gt(x, tol) for x in pos])
        for k, x in enumerate(b):
            ctx.claim("weight 1 where variance <= tol", Implies(le(x, tol), eq(wv[k], 1)))
            ctx.claim("weights lie in (0, 1]", And(gt(wv[k], 0), le(wv[k], 1)))
            # w = min{var > tol} / var : w*var is a positive variance that bounds all positive variances from below
            ctx.claim(
                "weight = smallest positive variance / variance",
                Implies(gt(x, tol), And(Or([And(gt(y, tol), eq(wv[k] * x, y)) for y in pos]), And([Implies(gt(y, tol), le(wv[k] * x, y)) for y in pos]))),
            )
        ctx.claim("at least one weight equals 1", Or([eq(u, 1) for u in wv]))


def h_v2w_fp(ctx):
    n = ctx.cfg["n"]
    v = ctx.fps("v", n)
    before = [x for x in v]
    out = vu.variance_to_weights(v)
    ctx.claim("fp64: shape preserved", np.shape(out) == (n,))
    for k in range(n):
        ctx.claim("fp64: input array bit-identical after the call (NaN and inf entries included)", f_same(v[k], before[k]))
        ctx.claim("fp64: NaN variance gets weight 1", Implies(f_isnan(before[k]), f_eq(out[k], 1.0)))
        ctx.claim("fp64: variance <= tol gets weight 1", Implies(f_le(before[k], 1e-15), f_eq(out[k], 1.0)))
        if ctx.cfg.get("range"):
            ctx.claim("fp64: weights lie in [0, 1] and are positive unless the quotient underflows", And(f_le(out[k], 1.0), f_le(0.0, out[k])))
    ctx.claim("fp64: at least one weight equals 1", Or([f_eq(out[k], 1.0) for k in range(n)]))


# --------------------------------------------------------------------------- BlockMean.filter
class _V2WRecorder:
    """records what BlockMean hands to variance_to_weights. Symbolic run: returns fresh
    symbols (the function is verified on its own); replay: calls the real function."""

    def __init__(self, sym, real):
        self.calls = []
        self.sym = sym
        self.real = real

    def __call__(self, variance, tol=1e-15, dtype="float64"):
        variance = np.asarray(variance)
        if self.sym:
            out = np.empty(variance.shape, dtype=object)
            for idx in np.ndindex(*variance.shape):
                out[idx] = E.SymReal(E.ENGINE.new("w"))
        else:
            out = self.real(variance.copy(), tol=tol, dtype=dtype)
        self.calls.append((variance.copy(), out))
        self.args = getattr(self, "args", []) + [(tol, dtype)]
        return out




def _bm_globals(cfg):
    return {("verde.blockreduce", "block_split"): stubs.BlockSplitContract()}


def _ref_weights(variances):
    "reference variance_to_weights on concrete numbers (NaN -> 1)"
    v = [0.0 if (x != x) else float(x) for x in variances]
    pos = [x for x in v if x > 1e-15]
    if not pos:
        return [1.0] * len(v)
    m = min(pos)
    return [m / x if x > 1e-15 else 1.0 for x in v]


def h_blockmean(ctx):
    cfg = ctx.cfg
    members = cfg["members"]  # block index of each point
    npts = len(members)
    shape = tuple(cfg["shape"])
    ncomp = cfg["ncomp"]
    mode = cfg["mode"]  # "none" | "uncertainty" | "weighted"
    w, ee, s, no = ctx.real("W"), ctx.real("E"), ctx.real("S"), ctx.real("N")
    ctx.assume(w < ee)
    ctx.assume(s < no)
    region = (w, ee, s, no)
    e = ctx.reals("e", npts)
    n = ctx.reals("n", npts)
    xcoord = ctx.reals("x", npts)
    nn_, ne_ = shape
    geom = cfg.get("geom", "shape")
    if geom == "adjust_region":
        # blocks of exactly the requested size from (W, S); their number is the nearest integer to extent / spacing
        se, sn = ctx.real("spacing_e"), ctx.real("spacing_n")
        ctx.assume(se > 0)
        ctx.assume(sn > 0)
        ctx.assume(And(gt(ee - w, (ne_ - Fraction(1, 2)) * se), lt(ee - w, (ne_ + Fraction(1, 2)) * se), gt(no - s, (nn_ - Fraction(1, 2)) * sn), lt(no - s, (nn_ + Fraction(1, 2)) * sn)))
        we_, hn_ = se, sn
    else:
        we_, hn_ = (ee - w) / ne_, (no - s) / nn_
    if geom == "inferred":
        ctx.assume(And(eq(w, E.smin(list(e))), eq(ee, E.smax(list(e))), eq(s, E.smin(list(n))), eq(no, E.smax(list(n)))))
    for p in range(npts):
        i, j = divmod(members[p], ne_)
        if geom == "inferred":
            ctx.assume(And(True if j == 0 else gt(e[p], w + j * we_), True if j == ne_ - 1 else lt(e[p], w + (j + 1) * we_), True if i == 0 else gt(n[p], s + i * hn_), True if i == nn_ - 1 else lt(n[p], s + (i + 1) * hn_)))
        else:
            ctx.assume(And(gt(e[p], w + j * we_), lt(e[p], w + (j + 1) * we_), gt(n[p], s + i * hn_), lt(n[p], s + (i + 1) * hn_)))
    data = [ctx.reals("d%d" % c, npts) for c in range(ncomp)]
    weights = None
    if mode != "none":
        weights = [ctx.reals("w%d" % c, npts, None, None) for c in range(ncomp)]
        for wc in weights:
            for x in wc:
                ctx.assume(x > 0)
    rec = _V2WRecorder(ctx.sym, vu.variance_to_weights)
    if cfg.get("mem"):
        from symx.harness import relayout

        sh2 = tuple(cfg["pshape"])
        e, n = e.reshape(sh2), n.reshape(sh2)
        data = [relayout(d.reshape(sh2), cfg["mem"]) for d in data]
        if weights is not None:
            weights = [relayout(x.reshape(sh2), cfg["mem"]) for x in weights]
    for a in [e, n] + data + (weights or []):
        a.setflags(write=False)
    ef, nf = np.ravel(e), np.ravel(n)
    dataf = [np.ravel(d) for d in data]
    weightsf = None if weights is None else [np.ravel(x) for x in weights]
    gkw = {"shape": shape, "region": region}
    if geom == "spacing":
        gkw = {"spacing": ((no - s) / nn_, (ee - w) / ne_), "region": region}
    elif geom == "adjust_region":
        gkw = {"spacing": (sn, se), "adjust": "region", "region": region}
    elif geom == "inferred":
        gkw = {"shape": shape}
    keep_extra = cfg.get("drop") is False
    if keep_extra:
        gkw["drop_coords"] = False
    if cfg.get("set_params"):
        # parameters are read when filtering, not frozen at construction
        bm = vd.BlockMean(uncertainty=(mode != "uncertainty"), center_coordinates=not cfg.get("center", False), **gkw)
        bm.set_params(uncertainty=(mode == "uncertainty"), center_coordinates=cfg.get("center", False))
    else:
        bm = vd.BlockMean(uncertainty=(mode == "uncertainty"), center_coordinates=cfg.get("center", False), **gkw)
    darg = tuple(data) if ncomp > 1 else data[0]
    warg = None if weights is None else (tuple(weights) if ncomp > 1 else weights[0])
    old_v2w = vb.variance_to_weights
    vb.variance_to_weights = rec
    try:
        coords, mean, wout = bm.filter((e, n, xcoord.reshape(np.shape(e))) if keep_extra else (e, n), darg, warg)
    finally:
        vb.variance_to_weights = old_v2w
    means = list(mean) if ncomp > 1 else [mean]
    wouts = list(wout) if ncomp > 1 else [wout]
    blocks = sorted(set(members))
    ctx.claim("one output per non-empty block", And(len(coords) == (3 if keep_extra else 2), len(coords[0]) == len(blocks), all(len(m) == len(blocks) for m in means), all(len(x) == len(blocks) for x in wouts)))
    if len(coords[0]) != len(blocks):
        return
    nn, ne = shape
    exp_var = []
    for c in range(ncomp):
        ev = []
        for bi, b in enumerate(blocks):
            idx = [p for p in range(npts) if members[p] == b]
            ws = [weightsf[c][p] for p in idx] if weights is not None else [1] * len(idx)
            sw = sum(ws)
            m = sum(wi * dataf[c][p] for wi, p in zip(ws, idx)) / sw
            ctx.claim("block value is the (weighted) mean of exactly its members, in ascending block order", eq(means[c][bi], m))
            if mode == "none":
                ss = sum((dataf[c][p] - m) ** 2 for p in idx)
                ev.append((ss / len(idx), (ss / (len(idx) - 1)) if len(idx) > 1 else None))
            elif mode == "uncertainty":
                ev.append((1 / sw, None))
            else:
                ev.append((sum(wi * (dataf[c][p] - m) ** 2 for wi, p in zip(ws, idx)) / sw, None))
            if c == 0:
                if cfg.get("center"):
                    i, j = divmod(b, ne)
                    ctx.claim("center_coordinates gives the centre of that very block", And(eq(coords[0][bi], w + (j + Fraction(1, 2)) * we_), eq(coords[1][bi], s + (i + Fraction(1, 2)) * hn_)))
                else:
                    ce = sum(ef[p] for p in idx) / len(idx)
                    cn = sum(nf[p] for p in idx) / len(idx)
                    ctx.claim("block coordinates are the mean of the member coordinates", And(eq(coords[0][bi], ce), eq(coords[1][bi], cn)))
                if keep_extra and len(coords) == 3:
                    ctx.claim("with drop_coords=False the extra coordinate is averaged over the members too", eq(coords[2][bi], sum(xcoord[p] for p in idx) / len(idx)))
        exp_var.append(ev)
    if True:
        calls = rec.calls
        ctx.claim("variance_to_weights called once per component", len(calls) == ncomp)
        ctx.claim("variance_to_weights is used with its documented defaults (tol=1e-15, float64)", all(t == 1e-15 and str(dt) == "float64" for t, dt in getattr(rec, "args", [])))
        if len(calls) != ncomp:
            return
        for c in range(ncomp):
            arg, out = calls[c]
            ctx.claim("one variance per non-empty block handed to variance_to_weights", arg.shape == (len(blocks),))
            if arg.shape != (len(blocks),):
                continue
            if mode == "none":
                d0 = And([eq(arg[bi], exp_var[c][bi][0]) for bi in range(len(blocks))])
                d1 = And([eq(arg[bi], exp_var[c][bi][1]) for bi in range(len(blocks)) if exp_var[c][bi][1] is not None] + [True])
                ctx.claim("variance handed over is the block variance of exactly the members (ddof 0 or 1, same for all blocks)", Or(d0, d1))
            else:
                for bi in range(len(blocks)):
                    ctx.claim("variance handed over is 1/sum(w) (uncertainty) or the weighted variance of exactly the members", eq(arg[bi], exp_var[c][bi][0]))
            for bi in range(len(blocks)):
                ctx.claim("returned weights are variance_to_weights' output for that component, in block order", (wouts[c][bi] is out[bi]) if ctx.sym else eq(wouts[c][bi], out[bi]))
    if not ctx.sym:
        for c in range(ncomp):
            got = [float(x) for x in wouts[c]]
            cands = [_ref_weights([ev[0] for ev in exp_var[c]])]
            if mode == "none":
                cands.append(_ref_weights([float("nan") if ev[1] is None else ev[1] for ev in exp_var[c]]))
            ok = Or([And([eq(g, r) for g, r in zip(got, ref)]) for ref in cands])
            ctx.claim("weights = smallest positive block variance / block variance (1 for zero/NaN variance)", ok)
            ctx.claim("weights lie in (0,1] with at least one equal to 1", And(all(0 < g <= 1 + 1e-12 for g in got), any(abs(g - 1) < 1e-12 for g in got)))
    for a, name in [(e, "e"), (n, "n")] + [(d, "d") for d in data]:
        ctx.claim("inputs not modified", not a.flags.writeable)


def h_blockmean_rejects(ctx):
    e = ctx.reals("e", 2)
    n = ctx.reals("n", 2)
    d = ctx.reals("d", 2)
    try:
        vd.BlockMean(shape=(1, 1), uncertainty=True).filter((e, n), d)
        ctx.claim("uncertainty propagation without weights is rejected", False)
    except ValueError:
        ctx.claim("uncertainty propagation without weights is rejected", True)
    for label, call in (
        ("two components, no weights", lambda: vd.BlockMean(shape=(1, 1), uncertainty=True).filter((e, n), (d, d))),
        ("no weights spelt as one None per component (one component)", lambda: vd.BlockMean(shape=(1, 1), uncertainty=True).filter((e, n), d, (None,))),
        ("no weights spelt as one None per component (two components)", lambda: vd.BlockMean(shape=(1, 1), uncertainty=True).filter((e, n), (d, d), (None, None))),
    ):
        try:
            call()
            ctx.claim("uncertainty propagation is rejected unless every component has weights: %s" % label, False)
        except ValueError:
            ctx.claim("uncertainty propagation is rejected unless every component has weights: %s" % label, True)


def _cfg_v2w(tier, seed):
    if tier == "quick":
        return [{"ncomp": 1, "n": 3}, {"ncomp": 2, "n": 2}, {"ncomp": 1, "n": (1, 2)}]
    return [{"ncomp": 1, "n": 3}, {"ncomp": 1, "n": 4}, {"ncomp": 2, "n": 2}, {"ncomp": 3, "n": 2}, {"ncomp": 1, "n": (2, 2)}, {"ncomp": 2, "n": (1, 2)}]


def _cfg_bm(tier, seed):
    out = []
    scen = [((1, 2), [0, 0, 1]), ((2, 2), [3, 0, 3, 0])] if tier == "quick" else [((1, 2), [0, 0, 1]), ((2, 2), [3, 0, 3, 0]), ((2, 2), [2, 2, 2, 1, 1]), ((1, 3), [2, 0, 2, 0]), ((2, 1), [1, 1, 0, 1])]
    for shape, members in scen:
        for mode in ("none", "uncertainty", "weighted"):
            out.append({"shape": shape, "members": members, "ncomp": 1, "mode": mode})
    out.append({"shape": (1, 2), "members": [1, 0, 1], "ncomp": 2, "mode": "weighted", "center": True})
    out.append({"shape": (1, 2), "members": [1, 0, 1], "ncomp": 2, "mode": "none"})
    out.append({"shape": (1, 2), "members": [1, 0, 1, 0], "ncomp": 2, "mode": "uncertainty"})
    out.append({"shape": (1, 2), "members": [1, 0, 0, 1], "ncomp": 2, "mode": "weighted", "mem": "F", "pshape": (2, 2)})
    out.append({"shape": (2, 2), "members": [3, 1, 3], "ncomp": 1, "mode": "none", "center": True})
    out.append({"shape": (1, 2), "members": [0, 0, 1], "ncomp": 1, "mode": "uncertainty", "set_params": True})
    out.append({"shape": (1, 2), "members": [0, 0, 1], "ncomp": 1, "mode": "weighted", "set_params": True, "center": True})
    out.append({"shape": (1, 2), "members": [1, 0, 1], "ncomp": 1, "mode": "weighted", "geom": "adjust_region", "center": True})
    out.append({"shape": (1, 2), "members": [0, 1, 1], "ncomp": 1, "mode": "uncertainty", "geom": "spacing", "drop": False})
    out.append({"shape": (2, 1), "members": [1, 0, 1], "ncomp": 1, "mode": "none", "geom": "inferred"})
    if tier == "thorough":
        out.append({"shape": (2, 2), "members": [0, 3, 3, 1], "ncomp": 3, "mode": "uncertainty", "center": True})
        out.append({"shape": (2, 2), "members": [0, 3, 3, 1], "ncomp": 3, "mode": "none"})
    return out


HARNESSES = [
    Harness("variance_to_weights_real", h_v2w_real, _cfg_v2w, bounds="1-3 variance arrays of up to 4 symbolic real entries (any sign), shapes 1-D and 2-D, symbolic tol >= 0; inputs marked read-only", engine={"oneshot": True}),
    Harness(
        "variance_to_weights_fp64",
        h_v2w_fp,
        lambda tier, seed: [{"n": 2}] + ([{"n": 3}, {"n": 2, "range": True}] if tier == "thorough" else []),
        bounds="all binary64 values (NaN, +-inf, +-0, subnormals) for 2 (quick) / 3 (thorough) entries; default tol",
        engine={"no_crosscheck": True, "timeout_ms": 120000},
        timeout_s=900,
    ),
    Harness(
        "blockmean_filter",
        h_blockmean,
        _cfg_bm,
        bounds="3-5 points with symbolic coordinates constrained strictly inside enumerated blocks of a symbolic region (layouts 1x2, 2x2, 1x3, 2x1; empty blocks, single-member blocks, non-ascending first appearance), symbolic data (1-3 components) and positive weights; three aggregation paths; center_coordinates on/off",
        stubs=["verde.blockreduce.block_split -> C08 contract", "verde.blockreduce.variance_to_weights -> recorder returning fresh symbols (symbolic run only)"],
        extra_globals=_bm_globals,
        engine={"oneshot": True},
    ),
    Harness("blockmean_rejects", h_blockmean_rejects, {"quick": [{}]}, bounds="2 symbolic points", extra_globals=_bm_globals, stubs=["verde.blockreduce.block_split -> C08 contract"]),
]
