"""C05 grid/profile/scatter place each prediction at the right coordinate.

Real functions executed: verde.base.base_classes.BaseGridder.grid / profile /
scatter, project_coordinates, get_instance_region, _get_dims, _get_data_names,
_get_extra_coords_names; verde.coordinates.grid_coordinates, profile_coordinates,
scatter_points; verde.utils.make_xarray_grid, meshgrid_from_1d, check_meshgrid;
verde.synthetic.CheckerBoard.scatter; real xarray / pandas."""
import warnings
from fractions import Fraction

import numpy as np

import verde as vd
from verde import coordinates as vc

from symx import stubs, gridders
from symx.gridders import UFGridder, P
from symx.engine import And, Or, Not, Implies, eq, le, lt, ge, gt
from symx.harness import Harness

ASSUMPTIONS = [
    "the gridder is a real BaseGridder subclass whose predict is an uninterpreted function P(id, fit#, component, easting, northing) (asymmetric by construction); a fixed asymmetric polynomial in the replay",
    "projections are separable affine maps with concrete slopes (both signs) and symbolic offsets, with their exact inverses",
    "xarray / pandas run for real; RNG replaced by its uniform contract; hypot/arctan2/sin/cos uninterpreted with trigonometric axioms",
]
HALF = Fraction(1, 2)


def _fitted(ctx, ident=1, ncomp=1):
    "a gridder fitted on 3 symbolic points (sets region_)"
    g = UFGridder(ident=ident, ncomp=ncomp)
    e = ctx.reals("fe", 3)
    n = ctx.reals("fn", 3)
    d = ctx.reals("fd", 3)
    g.fit((e, n), tuple([d] * ncomp) if ncomp > 1 else d)
    return g, vc.get_region((e, n))


def _proj(ctx, cfg):
    """projection, description, forward map. cfg["proj"] = (a, c): separable map (a e + b, c n + d);
    cfg["proj"] = (a11, a12, a21, a22): general (non-separable) affine map, e.g. a rotation or shear.
    Slopes are concrete rationals, offsets symbolic."""
    if not cfg.get("proj"):
        return None, None, (lambda e, n: (e, n))
    pr = [Fraction(v) for v in cfg["proj"]]
    b, d = ctx.real("pb"), ctx.real("pd")
    if len(pr) == 2:
        a11, a12, a21, a22 = pr[0], Fraction(0), Fraction(0), pr[1]
    else:
        a11, a12, a21, a22 = pr
    det = a11 * a22 - a12 * a21
    if not ctx.sym:
        a11, a12, a21, a22, det = float(a11), float(a12), float(a21), float(a22), float(det)

    def fwd(e, n):
        return e * a11 + n * a12 + b, e * a21 + n * a22 + d

    def projection(e, n, inverse=False):
        if inverse:
            x, y = e - b, n - d
            return (x * a22 - y * a12) / det, (y * a11 - x * a21) / det
        return fwd(e, n)

    return projection, (a11, a12, a21, a22), fwd


def h_grid(ctx):
    cfg = ctx.cfg
    ncomp = cfg.get("ncomp", 1)
    g, data_region = _fitted(ctx, ident=cfg.get("ident", 3), ncomp=ncomp)
    projection, _, fwd = _proj(ctx, cfg)
    kw = {}
    if cfg["region"] == "given":
        w, ee, s, no = ctx.real("W"), ctx.real("E"), ctx.real("S"), ctx.real("N")
        ctx.assume(w <= ee)
        ctx.assume(s <= no)
        region = (w, ee, s, no)
        kw["region"] = region
    else:
        region = data_region
    gkw = {}
    if cfg.get("shape"):
        gkw["shape"] = tuple(cfg["shape"])
    else:
        sp = ctx.real("spacing")
        ctx.assume(sp > 0)
        ctx.assume(region[1] - region[0] <= sp * Fraction(cfg["maxq"]))
        ctx.assume(region[3] - region[2] <= sp * Fraction(cfg["maxq"]))
        gkw["spacing"] = sp
        gkw["adjust"] = cfg.get("adjust", "spacing")
    if cfg.get("pixel"):
        gkw["pixel_register"] = True
    nx = cfg.get("extra", 0)
    xs = [ctx.real("x%d" % k) for k in range(nx)]
    if nx:
        gkw["extra_coords"] = xs if nx > 1 else xs[0]
    if cfg.get("dims"):
        kw["dims"] = tuple(cfg["dims"])
    if cfg.get("names"):
        kw["data_names"] = cfg["names"]
    if projection is not None:
        kw["projection"] = projection
    state_before = dict(vars(g))
    class_dims = type(g).dims
    ds = g.grid(**kw, **gkw)
    state_after = dict(vars(g))
    ctx.claim("grid() leaves the gridder's attributes (and the class defaults) untouched, so a later call is not affected", And(set(state_after) == set(state_before), all(state_after[k] is state_before[k] for k in state_before), type(g).dims is class_dims, g.dims == ("northing", "easting")))
    if cfg.get("dims"):
        # a later call without custom names uses the documented defaults again
        later = g.grid(region=(0.0, 1.0, 0.0, 1.0), shape=(2, 2))
        ctx.claim("names follow the arguments of each call: defaults are back when none are given", And(all(tuple(later[v].dims) == ("northing", "easting") for v in later.data_vars), set(later.sizes) == {"northing", "easting"}))
    dims = tuple(cfg.get("dims") or ("northing", "easting"))
    names = cfg.get("names") or [("scalars",), ("east_component", "north_component"), ("east_component", "north_component", "vertical_component")][ncomp - 1]
    if isinstance(names, str):
        names = [names]
    ref = vc.grid_coordinates(region, **gkw)
    east, north = ref[0][0, :], ref[1][:, 0]
    ctx.claim("dims are (northing, easting) names; variables named as requested/default", And(list(ds.data_vars) == list(names), all(tuple(ds[v].dims) == dims for v in ds.data_vars)))
    ctx.claim("coordinate vectors have the grid_coordinates lengths", And(ds.sizes[dims[1]] == len(east), ds.sizes[dims[0]] == len(north)))
    if ds.sizes[dims[1]] != len(east) or ds.sizes[dims[0]] != len(north) or list(ds.data_vars) != list(names):
        return
    for j in range(len(east)):
        ctx.claim("easting coordinate vector is exactly grid_coordinates' (unprojected)", eq(ds.coords[dims[1]].values[j], east[j]))
    for i in range(len(north)):
        ctx.claim("northing coordinate vector is exactly grid_coordinates' (unprojected)", eq(ds.coords[dims[0]].values[i], north[i]))
    for c, name in enumerate(names):
        vals = ds[name].values
        ctx.claim("variable has shape (n_north, n_east)", vals.shape == (len(north), len(east)))
        if vals.shape != (len(north), len(east)):
            continue
        for i in range(len(north)):
            for j in range(len(east)):
                pe, pn = fwd(east[j], north[i])
                ctx.claim("value[i, j] is the prediction at (easting[j], northing[i]) (projected when a projection is given): never transposed, flipped or shifted", eq(vals[i, j], P(g.ident, 1, c, pe, pn)))
    exp_x = ["extra_coord"] + ["extra_coord_%d" % k for k in range(1, nx)]
    for k in range(nx):
        ctx.claim("extra coordinates named by the documented default and constant", exp_x[k] in ds.coords and tuple(ds.coords[exp_x[k]].dims) == dims)
        if exp_x[k] in ds.coords:
            for v in ds.coords[exp_x[k]].values.ravel():
                ctx.claim("extra coordinate value", eq(v, xs[k]))
    meta = "Generated by " + repr(g)
    ctx.claim("metadata on the grid and on every variable", And(ds.attrs.get("metadata") == meta, all(ds[v].attrs.get("metadata") == meta for v in ds.data_vars)))


def h_grid_coordinates(ctx):
    "explicit coordinates (1-D vectors or 2-D meshgrids)"
    cfg = ctx.cfg
    ncomp = cfg.get("ncomp", 1)
    g, _ = _fitted(ctx, ident=5, ncomp=ncomp)
    projection, _, fwd = _proj(ctx, cfg)
    gk = {}
    if projection is not None:
        gk["projection"] = projection
    dims = tuple(cfg.get("dims", ("northing", "easting")))
    if cfg.get("dims"):
        gk["dims"] = dims
    names = ["scalars"] if ncomp == 1 else ["east_component", "north_component", "vertical_component"][:ncomp]
    if cfg.get("names") == "str":
        gk["data_names"] = "temp"  # a single name given as a string, not a list
        names = ["temp"]
    sh = tuple(cfg["shape"])
    east = ctx.reals("ge", sh[1])
    north = ctx.reals("gn", sh[0])
    if cfg["twod"]:
        ee, nn = np.meshgrid(east, north)
        if cfg.get("mem"):
            from symx.harness import relayout

            ee, nn = relayout(ee, cfg["mem"]), relayout(nn, cfg["mem"])
        coords = (ee, nn)
    else:
        coords = (east, north)
    nx = cfg.get("extra", 0)
    x = ctx.reals("gx", sh) if nx else None
    if nx:
        coords = coords + (x,)
    ds = g.grid(coordinates=coords, **gk)
    ctx.claim("dimensions named as requested (default northing, easting); sizes follow the given coordinates", And(set(ds.sizes) == set(dims), ds.sizes.get(dims[1]) == sh[1], ds.sizes.get(dims[0]) == sh[0]))
    ctx.claim("one variable per component with the given (a plain string counts as one name) or default names", list(ds.data_vars) == names)
    if set(ds.sizes) != set(dims) or ds.sizes[dims[1]] != sh[1] or ds.sizes[dims[0]] != sh[0] or list(ds.data_vars) != names:
        return
    for c, name in enumerate(names):
        vals = ds[name].values
        ctx.claim("values have shape (n_north, n_east)", vals.shape == sh and tuple(ds[name].dims) == dims)
        if vals.shape != sh:
            return
        for i in range(sh[0]):
            for j in range(sh[1]):
                pe, pn = fwd(east[j], north[i])
                ctx.claim("value[i, j] is the prediction at the given (easting[j], northing[i]), projected if a projection is given", eq(vals[i, j], P(5, 1, c, pe, pn)))
                if nx and c == 0:
                    ctx.claim("given extra coordinate kept at its cell", eq(ds.coords["extra_coord"].values[i, j], x[i, j]))
    for j in range(sh[1]):
        ctx.claim("easting coordinate vector as given (not projected)", eq(ds.coords[dims[1]].values[j], east[j]))
    for i in range(sh[0]):
        ctx.claim("northing coordinate vector as given (not projected)", eq(ds.coords[dims[0]].values[i], north[i]))
    for bad in (dict(coordinates=coords, shape=sh), dict(coordinates=coords, spacing=1.0), dict(coordinates=coords, region=(0, 1, 0, 1))):
        try:
            g.grid(**bad)
            ctx.claim("coordinates together with shape/spacing/region rejected", False)
        except ValueError:
            ctx.claim("coordinates together with shape/spacing/region rejected", True)


def h_profile(ctx):
    cfg = ctx.cfg
    ncomp = cfg.get("ncomp", 1)
    g, _ = _fitted(ctx, ident=2, ncomp=ncomp)
    projection, pr, fwd = _proj(ctx, cfg)
    p1 = (ctx.real("x1"), ctx.real("y1"))
    p2 = (ctx.real("x2"), ctx.real("y2"))
    size = cfg["size"]
    kw = {}
    if projection is not None:
        kw["projection"] = projection
    if cfg.get("extra"):
        xv = ctx.real("extra")
        kw["extra_coords"] = xv
    if cfg.get("dims"):
        kw["dims"] = tuple(cfg["dims"])
    if cfg.get("names") == "str":
        kw["data_names"] = "temp"  # one name as a plain string
    table = g.profile(p1, p2, size, **kw)
    if cfg.get("dims"):
        later = g.profile((0.0, 0.0), (1.0, 1.0), 2)
        ctx.claim("profile column names follow the arguments of each call", list(later.columns)[:2] == ["northing", "easting"])
    dims = tuple(cfg.get("dims") or ("northing", "easting"))
    names = ("temp",) if cfg.get("names") == "str" else [("scalars",), ("east_component", "north_component")][ncomp - 1]
    cols = [dims[0], dims[1], "distance"] + (["extra_coord"] if cfg.get("extra") else []) + list(names)
    ctx.claim("columns: northing, easting, distance, extra coordinates, data", list(table.columns) == cols)
    ctx.claim("size rows", len(table) == size)
    if list(table.columns) != cols or len(table) != size:
        return
    q1 = fwd(*p1)
    q2 = fwd(*p2)
    dx, dy = q2[0] - q1[0], q2[1] - q1[1]
    den = max(size - 1, 1)
    for k in range(size):
        # position in projected space
        qe = q1[0] + Fraction(k, den) * dx if ctx.sym else q1[0] + k / den * dx
        qn = q1[1] + Fraction(k, den) * dy if ctx.sym else q1[1] + k / den * dy
        te, tn = table[dims[1]].values[k], table[dims[0]].values[k]
        fe, fn = fwd(te, tn)
        ctx.claim("point k is evenly spaced on the segment (in projected units; output coordinates mapped back)", And(eq(fe, qe), eq(fn, qn)))
        d = table["distance"].values[k]
        ctx.claim("distance from the first point in projected units", And(ge(d, 0), eq(d * d * den * den, (dx * dx + dy * dy) * k * k)))
        for c, name in enumerate(names):
            ctx.claim("prediction taken at the projected profile point", eq(table[name].values[k], P(2, 1, c, fe, fn)), conc=True)
        if cfg.get("extra"):
            ctx.claim("extra coordinate constant", eq(table["extra_coord"].values[k], xv))


def _chain_globals(cfg):
    return {("verde.blockreduce", "block_split"): stubs.BlockSplitContract()}


def h_default_region(ctx):
    """generators called without a region use the bounding box of the data the estimator was fitted to - also for
    a Chain whose first step thins the data (block reduction) and for a Vector"""
    cfg = ctx.cfg
    gridders.reset() if hasattr(gridders, "reset") else None
    e, n, d = ctx.reals("fe", 3), ctx.reals("fn", 3), ctx.reals("fd", 3)
    data_region = vc.get_region((e, n))
    ctx.assume(data_region[0] < data_region[1])
    ctx.assume(data_region[2] < data_region[3])
    if cfg["kind"] == "chain_reduce":
        mean = (lambda v, **kw: np.mean(np.asarray(getattr(v, "values", v)))) if ctx.sym else np.mean
        est = vd.Chain([("reduce", vd.BlockReduce(mean, shape=(1, 1))), ("uf", UFGridder(ident=7))])
        est.fit((e, n), d)
        ncomp = 1
    elif cfg["kind"] == "chain":
        est = vd.Chain([("a", UFGridder(ident=6)), ("uf", UFGridder(ident=7))])
        est.fit((e, n), d)
        ncomp = 1
    else:
        est = vd.Vector([UFGridder(ident=6), UFGridder(ident=7)])
        est.fit((e, n), (d, ctx.reals("fdd", 3)))
        ncomp = 2
    ctx.claim("region_ is the bounding box of the data the estimator was fitted to", And(len(est.region_) == 4, And([eq(a, b) for a, b in zip(est.region_, data_region)])))
    ds = est.grid(shape=(2, 3))
    ref = vc.grid_coordinates(data_region, shape=(2, 3))
    ok = ds.sizes.get("easting") == 3 and ds.sizes.get("northing") == 2
    ctx.claim("grid() without a region has the requested shape", ok)
    if ok:
        ctx.claim("grid() without a region spans the fitted data's bounding box", And([eq(a, b) for a, b in zip(ds.coords["easting"].values, ref[0][0, :])] + [eq(a, b) for a, b in zip(ds.coords["northing"].values, ref[1][:, 0])]))
    pts = vc.scatter_points(data_region, 2, random_state=3)
    table = est.scatter(size=2, random_state=3)
    ctx.claim("scatter() without a region draws its points in the fitted data's bounding box", And(len(table) == 2, And([And(eq(table["easting"].values[k], pts[0][k]), eq(table["northing"].values[k], pts[1][k])) for k in range(min(2, len(table)))])))


def _scatter_globals(cfg):
    return {("verde.coordinates", "check_random_state"): stubs.stub_check_random_state}


def h_scatter(ctx):
    cfg = ctx.cfg
    kind = cfg["kind"]
    projection, pr, fwd = _proj(ctx, cfg)
    w, ee, s, no = ctx.real("W"), ctx.real("E"), ctx.real("S"), ctx.real("N")
    ctx.assume(w <= ee)
    ctx.assume(s <= no)
    size, seed = cfg["size"], cfg["seed"]
    kw = {}
    if projection is not None:
        kw["projection"] = projection
    if kind == "uf" and cfg.get("names") == "str":
        kw["dims"] = ("lat", "lon")
        kw["data_names"] = "temp"
    if kind == "uf":
        g, data_region = _fitted(ctx, ident=4)
        if cfg.get("default_region"):
            region = data_region
            table = g.scatter(size=size, random_state=seed, **kw)
        else:
            region = (w, ee, s, no)
            table = g.scatter(region=region, size=size, random_state=seed, **kw)
        pts = vc.scatter_points(region, size, random_state=seed)
        cols = ["lat", "lon", "temp"] if cfg.get("names") == "str" else ["northing", "easting", "scalars"]
        ctx.claim("columns: northing, easting, data (custom dimension names and a string data name honoured)", list(table.columns) == cols)
        ctx.claim("size rows", len(table) == size)
        if list(table.columns) != cols:
            return
        for k in range(min(size, len(table))):
            ctx.claim("row k sits at the k-th reproducible scatter point of the region", And(eq(table[cols[1]].values[k], pts[0][k]), eq(table[cols[0]].values[k], pts[1][k])))
            pe, pn = fwd(pts[0][k], pts[1][k])
            ctx.claim("row k holds the prediction at that (projected) point", eq(table[cols[2]].values[k], P(4, 1, 0, pe, pn)))
    else:
        amp = ctx.real("amp")
        cb = vd.synthetic.CheckerBoard(amplitude=amp, region=(w, ee, s, no), w_east=ctx.real("we", 1, None), w_north=ctx.real("wn", 1, None))
        skw = dict(kw)
        used = (w, ee, s, no)
        if cfg.get("other_region"):
            # a region passed to scatter wins over the instance's
            used = (ctx.real("W2"), ctx.real("E2"), ctx.real("S2"), ctx.real("N2"))
            ctx.assume(used[0] <= used[1])
            ctx.assume(used[2] <= used[3])
            skw["region"] = used
        dims, dname = ("northing", "easting"), "scalars"
        if cfg.get("names"):
            dims, dname = ("lat", "lon"), "height"
            skw["dims"] = dims
            skw["data_names"] = dname  # a single name given as a string
        table = cb.scatter(size=size, random_state=seed, **skw)
        pts = vc.scatter_points(used, size, random_state=seed)
        ctx.claim("CheckerBoard.scatter columns: northing and easting dimension names, then the data name", list(table.columns) == [dims[0], dims[1], dname])
        ctx.claim("size rows", len(table) == size)
        if list(table.columns) == [dims[0], dims[1], dname] and len(table) == size:
            pe, pn = fwd(pts[0], pts[1])
            ref = cb.predict((pe, pn))
            for k in range(size):
                ctx.claim("CheckerBoard.scatter uses the requested (else its own) region and the reproducible scatter points", And(eq(table[dims[1]].values[k], pts[0][k]), eq(table[dims[0]].values[k], pts[1][k])))
                ctx.claim("CheckerBoard.scatter holds what predict returns at those (projected) points", eq(table[dname].values[k], ref[k]))


def h_defaults(ctx):
    "no region and no fitted region_: rejected"
    g = UFGridder(ident=9)
    try:
        g.grid(shape=(2, 2))
        ctx.claim("grid without any region is rejected", False)
    except ValueError:
        ctx.claim("grid without any region is rejected", True)
    g3, _ = _fitted(ctx, ident=6, ncomp=2)
    try:
        g3.grid(shape=(2, 2), data_names=["only_one"])
        ctx.claim("wrong number of data names rejected", False)
    except ValueError:
        ctx.claim("wrong number of data names rejected", True)


def _cfg_grid(tier, seed):
    q = [
        {"region": "given", "shape": (2, 3)},
        {"region": "fitted", "shape": (3, 2), "pixel": True, "ncomp": 2},
        {"region": "given", "maxq": "5/2", "adjust": "region"},
        {"region": "given", "shape": (2, 3), "proj": ("2", "-3"), "extra": 1, "dims": ("lat", "lon"), "names": ["temp"]},
        {"region": "given", "shape": (1, 3), "ncomp": 3, "names": ["a", "b", "c"], "extra": 2},
        {"region": "given", "shape": (2, 3), "proj": ("3/5", "-4/5", "4/5", "3/5"), "ncomp": 2},
        {"region": "fitted", "shape": (3, 2), "proj": ("1", "1/2", "0", "2"), "pixel": True},
    ]
    if tier == "quick":
        return q
    out = list(q)
    for sh in [(1, 1), (3, 1), (1, 4), (3, 3), (2, 3), (3, 2), (4, 4), (2, 5)]:
        for pix in (False, True):
            for proj in (None, ("-1/2", "4"), ("3/5", "-4/5", "4/5", "3/5")):
                out.append({"region": "given", "shape": sh, "pixel": pix, "proj": proj, "ncomp": 2})
    for adjust in ("spacing", "region"):
        for pix in (False, True):
            out.append({"region": "fitted", "maxq": "5/2", "adjust": adjust, "pixel": pix, "proj": ("3", "1/7")})
    return out


HARNESSES = [
    Harness("grid", h_grid, _cfg_grid, bounds="symbolic region (given or the fitted data's bounding box), shapes up to 3x3 incl. non-square, spacing with <= 2.5 intervals per axis, both adjust modes and registrations, 0-2 extra coordinates, 1-3 components, custom dims and names, affine projections (separable and non-separable: rotation, shear)"),
    Harness("grid_explicit_coordinates", h_grid_coordinates, lambda tier, seed: [{"shape": sh, "twod": t, "extra": x} for sh in ([(2, 3)] if tier == "quick" else [(1, 3), (3, 1), (2, 3), (3, 2)]) for t in (False, True) for x in ((0, 1) if t else (0,))] + [{"shape": (2, 3), "twod": True, "extra": 1, "mem": "F"}, {"shape": (2, 3), "twod": False, "extra": 1, "proj": ("2", "-3"), "dims": ("lat", "lon"), "names": "str"}, {"shape": (3, 2), "twod": True, "extra": 0, "ncomp": 2, "proj": ("3/5", "-4/5", "4/5", "3/5")}, {"shape": (1, 2), "twod": False, "extra": 0, "ncomp": 3}], bounds="symbolic non-uniform coordinate vectors as 1-D arrays or 2-D meshgrids (+ a symbolic 2-D extra coordinate), shapes up to 3x2; 1-3 components with default names, a string data name, custom dims, affine projections"),
    Harness(
        "profile",
        h_profile,
        lambda tier, seed: [{"size": 2}, {"size": 3, "proj": ("2", "-3"), "extra": 1, "ncomp": 2, "dims": ("lat", "lon")}, {"size": 3, "proj": ("3/5", "-4/5", "4/5", "3/5")}, {"size": 2, "names": "str"}] + ([{"size": 1}, {"size": 4, "proj": ("-1/2", "4")}, {"size": 3}] if tier == "thorough" else []),
        bounds="symbolic end points, size 1-4, affine projection or none, extra coordinate, 1-2 components",
        engine={"oneshot": True},
        outside="OUT-TRANSC (values of the trigonometric functions)",
    ),
    Harness(
        "scatter",
        h_scatter,
        lambda tier, seed: [{"kind": "uf", "size": 2, "seed": 0}, {"kind": "uf", "size": 2, "seed": 3, "proj": ("2", "-3"), "default_region": True}, {"kind": "uf", "size": 2, "seed": 4, "proj": ("1", "1/2", "0", "2")}, {"kind": "uf", "size": 2, "seed": 6, "names": "str"}, {"kind": "checkerboard", "size": 2, "seed": 1}, {"kind": "checkerboard", "size": 2, "seed": 5, "proj": ("2", "-3"), "other_region": True, "names": True}] + ([{"kind": "uf", "size": 4, "seed": seed}] if tier == "thorough" else []),
        bounds="symbolic region, 2-4 points, RNG draws symbolic in [0,1)",
        extra_globals=_scatter_globals,
        stubs=["check_random_state -> StubRandomState (uniform contract)"],
    ),
    Harness(
        "default_region",
        h_default_region,
        {"quick": [{"kind": "chain_reduce"}, {"kind": "chain"}, {"kind": "vector"}]},
        bounds="3 symbolic data points; Chain(BlockReduce(1x1), gridder), Chain of two gridders, Vector of two gridders; grid(shape=(2,3)) and scatter(size=2) without a region",
        extra_globals=lambda cfg: {**_scatter_globals(cfg), **_chain_globals(cfg)},
        stubs=["check_random_state -> StubRandomState", "block_split -> C08 contract"],
    ),
    Harness("defaults_and_errors", h_defaults, {"quick": [{}]}, bounds="3 symbolic data points"),
]
