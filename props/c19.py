"""C19 load_surfer returns the file's grid faithfully or refuses it.

Real functions executed: verde.io.load_surfer, _read_surfer_header,
_check_surfer_integrity; numpy.linspace, real xarray.DataArray. The text file is
a fake file object whose header tokens denote symbolic numbers; numpy.loadtxt is
a stub returning the planted symbolic field (OUT-LIB: tokenising and number
parsing are numpy's); the replay writes a real file and uses the real loadtxt."""
import os
import tempfile
from fractions import Fraction

import numpy as np

import verde as vd
from verde import io as vio

from symx import npx
from symx import engine as E
from symx.engine import And, Or, Not, Implies, eq, le, lt, ge, gt, sabs, smin, smax, CBool
from symx.harness import Harness

ASSUMPTIONS = [
    "np.loadtxt returns the numbers written in the body, row by row (OUT-LIB); in the symbolic run it is a stub returning the planted field",
    "header tokens denote arbitrary symbolic numbers; int()/float() of a token return its value",
    "np.allclose modelled as |a-b| <= atol + rtol*|b|; masked min/max ignore blanked cells; a fully blanked grid has no range (never close)",
    "exact real arithmetic",
]
BLANK = 1.70141e38


class Tok(str):
    def __new__(cls, text, val):
        o = str.__new__(cls, text)
        o.symval = val
        return o

    def strip(self, *a):
        return self


class Line(str):
    def __new__(cls, text, toks=None):
        o = str.__new__(cls, text)
        o.toks = toks
        return o

    def split(self, *a):
        return list(self.toks) if self.toks is not None else str.split(self, *a)


class FakeFile:
    def __init__(self, lines, field):
        self.lines = list(lines)
        self.field = field
        self.pos = 0
        self.closed = False
        self.consumed = False

    def readline(self):
        if self.closed:
            raise ValueError("I/O operation on closed file.")
        if self.pos < len(self.lines):
            self.pos += 1
            return self.lines[self.pos - 1]
        return ""

    def close(self):
        self.closed = True


OPENED = []


def _fake_open_factory(make):
    def fake_open(fname, mode="r", *a, **kw):
        f = make()
        f.name = fname
        OPENED.append(f)
        return f

    return fake_open


LOADTXT_DTYPES = []


def _fake_loadtxt(f, dtype="float64", **kw):
    LOADTXT_DTYPES.append(dtype)
    if not isinstance(f, FakeFile):
        raise E.HarnessError("loadtxt stub given %r" % (f,))
    if f.closed:
        raise ValueError("I/O operation on closed file.")
    if f.pos != 5:
        raise E.HarnessError("loadtxt called after %d header lines" % f.pos)
    f.consumed = True
    out = f.field.copy()
    # numpy's row-selection keywords, should the caller use them
    if kw.get("skiprows"):
        out = out[int(kw["skiprows"]) :]
    if kw.get("max_rows") is not None:
        out = out[: int(kw["max_rows"])]
    unknown = set(kw) - {"skiprows", "max_rows"}
    if unknown:
        raise E.HarnessError("loadtxt stub: keyword(s) %s not modelled" % sorted(unknown))
    return out.view(npx.MinMaxArray)


def _write_real(path, gid, hshape, region, drange, field, fmt="plain"):
    if fmt == "tabs":
        # same numbers, other legal layout: padded grid id, tabs and runs of blanks, leading blanks, exponent notation, CRLF
        with open(path, "w", newline="") as fh:
            fh.write("  %s \t\r\n" % gid)
            fh.write("\t%d   %d \r\n" % (hshape[0], hshape[1]))
            fh.write(" %.17e\t\t%.17e\r\n" % (float(region[2]), float(region[3])))
            fh.write("%.17e   %.17e  \r\n" % (float(region[0]), float(region[1])))
            fh.write("\t%.17e \t %.17e\r\n" % (float(drange[0]), float(drange[1])))
            for row in field:
                fh.write("  " + " \t ".join("%.17e" % float(v) for v in row) + " \r\n")
        return
    with open(path, "w") as fh:
        fh.write("%s\n" % gid)
        fh.write("%d %d\n" % (hshape[0], hshape[1]))
        fh.write("%r %r\n" % (float(region[2]), float(region[3])))
        fh.write("%r %r\n" % (float(region[0]), float(region[1])))
        fh.write("%r %r\n" % (float(drange[0]), float(drange[1])))
        for row in field:
            fh.write(" ".join(repr(float(v)) for v in row) + "\n")


def h_load(ctx):
    cfg = ctx.cfg
    fshape = tuple(cfg["shape"])
    hr = ctx.integer("n_rows", 2, 3)
    hc = ctx.integer("n_cols", 2, 3)
    w, e, s, n = ctx.real("W"), ctx.real("E"), ctx.real("S"), ctx.real("N")
    dmin, dmax = ctx.real("dmin"), ctx.real("dmax")
    field = ctx.reals("z", fshape)
    if cfg.get("blankable") is not None:
        # bound: only the first cells (row-major) may hold the blank sentinel
        for v in list(field.ravel())[cfg["blankable"] :]:
            ctx.assume(v < BLANK)
    gid = "DSAA"
    via_path = cfg["path"]
    dtype = cfg.get("dtype")
    lkw = {"dtype": dtype} if dtype else {}
    fake_path = "some/path.grd"
    if ctx.sym:
        del LOADTXT_DTYPES[:]
        lines = [
            Line(("  " + gid + " \t\n") if cfg.get("fmt") == "tabs" else (gid + "\n")),
            Line("shape\n", [Tok("r", hr), Tok("c", hc)]),
            Line("sn\n", [Tok("s", s), Tok("n", n)]),
            Line("we\n", [Tok("w", w), Tok("e", e)]),
            Line("range\n", [Tok("lo", dmin), Tok("hi", dmax)]),
        ]
        del OPENED[:]
        npx.NP.loadtxt = _fake_loadtxt
        old_open = vio.__dict__.get("open")
        vio.open = _fake_open_factory(lambda: FakeFile(lines, field))
        mine = FakeFile(lines, field)
        try:
            try:
                grid = vd.load_surfer(fake_path if via_path else mine, **lkw)
                raised = None
            except (IOError, ValueError) as exc:
                grid, raised = None, exc
        finally:
            if old_open is None:
                del vio.open
            else:
                vio.open = old_open
            del npx.NP.loadtxt
        if via_path:
            ctx.claim("a file opened by load_surfer is closed on every path, including the raising ones", And(len(OPENED) == 1, all(f.closed for f in OPENED)))
        else:
            ctx.claim("a caller's file object is never closed and no other file is opened", And(len(OPENED) == 0, not mine.closed))
        hshape = (hr, hc)
        if LOADTXT_DTYPES:
            ctx.claim("the body is read once, as the requested dtype (float64 by default)", LOADTXT_DTYPES == [dtype or "float64"])
        path = fake_path
    else:
        tmp = tempfile.mkdtemp(prefix="symx_c19_", dir=os.environ.get("TMPDIR", "/dev/shm" if os.path.isdir("/dev/shm") else None))
        path = os.path.join(tmp, "grid.grd")
        hshape = (int(hr), int(hc))
        _write_real(path, gid, hshape, (w, e, s, n), (dmin, dmax), np.asarray(field, dtype=float), cfg.get("fmt", "plain"))
        fobj = None
        real_opened = []

        def recording_open(*a, **kw):
            fh = open(*a, **kw)
            real_opened.append(fh)
            return fh

        vio.open = recording_open
        try:
            try:
                if via_path:
                    grid = vd.load_surfer(path, **lkw)
                else:
                    fobj = open(path)
                    grid = vd.load_surfer(fobj, **lkw)
                raised = None
            except (IOError, ValueError) as exc:
                grid, raised = None, exc
            if fobj is not None:
                ctx.claim("a caller's file object is never closed and no other file is opened", And(not fobj.closed, len(real_opened) == 0))
                fobj.close()
            else:
                ctx.claim("a file opened by load_surfer is closed on every path, including the raising ones", And(len(real_opened) == 1, all(fh.closed for fh in real_opened)))
                for fh in real_opened:
                    fh.close()
        finally:
            del vio.open
            try:
                os.remove(path)
                os.rmdir(tmp)
            except OSError:
                pass
    same_shape = And(eq(hshape[0], fshape[0]), eq(hshape[1], fshape[1]))
    cells = [field[idx] for idx in np.ndindex(*fshape)]
    if ctx.sym:
        blank = [bool(v >= BLANK) for v in cells]  # forks: every blanking pattern is a path
    else:
        blank = [bool(v >= BLANK) for v in cells]
    kept = [v for v, b in zip(cells, blank) if not b]
    if kept:
        lo, hi = smin(kept), smax(kept)
        range_ok = And(le(sabs(lo - dmin), 1e-8 + 1e-5 * sabs(dmin)), le(sabs(hi - dmax), 1e-8 + 1e-5 * sabs(dmax)))
    else:
        range_ok = False
    if raised is not None:
        ctx.claim("only files whose body disagrees with the header (shape or data range) are refused", Not(And(same_shape, range_ok)))
        ctx.claim("refusal is an IOError", isinstance(raised, IOError))
        return
    ctx.claim("a returned grid means header and body agree in shape and data range", And(same_shape, range_ok))
    ctx.claim("dims are (northing, easting) and the shape is the file's (rows first)", And(tuple(grid.dims) == ("northing", "easting"), grid.shape == fshape))
    if grid.shape != fshape:
        return
    vals = grid.values
    for k, idx in enumerate(np.ndindex(*fshape)):
        v = vals[idx]
        isnan = (not E.is_sym(v)) and isinstance(v, (float, np.floating)) and v != v
        if blank[k]:
            ctx.claim("blank-value sentinels (>= 1.70141e38) become NaN", isnan)
        else:
            if dtype == "float32" and not ctx.sym:
                ctx.claim("values are those written in the file, row by row", CBool((not isnan) and abs(float(v) - float(field[idx])) <= 1e-6 * max(abs(float(field[idx])), 1e-30)))
            else:
                ctx.claim("values are those written in the file, row by row", And(not isnan, eq(v, field[idx]) if not isnan else False))
    nr, nc = fshape
    for i in range(nr):
        ctx.claim("northing evenly spaced over the header's south..north", eq(grid.coords["northing"].values[i] * (nr - 1), s * (nr - 1) + i * (n - s)))
    for j in range(nc):
        ctx.claim("easting evenly spaced over the header's west..east", eq(grid.coords["easting"].values[j] * (nc - 1), w * (nc - 1) + j * (e - w)))
    ctx.claim("grid id in the attributes", grid.attrs.get("gridID") == gid)
    ctx.claim("the path is recorded iff a path was given, and it is the path as given", (grid.attrs.get("file") == path) if via_path else ("file" not in grid.attrs))
    if not ctx.sym:
        ctx.claim("the grid has the requested dtype (float64 by default)", str(grid.dtype) == (dtype or "float64"))


def h_unreadable(ctx):
    """the body cannot be parsed (ragged wrapped rows): the error reaches the caller, no grid is returned and
    a file opened by load_surfer is closed"""
    via_path = ctx.cfg["path"]
    w, e, s, n = ctx.real("W"), ctx.real("E"), ctx.real("S"), ctx.real("N")
    bad_header = ctx.cfg.get("kind") == "header"  # a range line with three numbers: the header itself cannot be read
    if ctx.sym:
        lines = [Line("DSAA\n"), Line("shape\n", [Tok("r", 2), Tok("c", 6)]), Line("sn\n", [Tok("s", s), Tok("n", n)] + ([Tok("x", 1.0)] if bad_header else [])), Line("we\n", [Tok("w", w), Tok("e", e)]), Line("range\n", [Tok("lo", 0.0), Tok("hi", 1.0)])]
        del OPENED[:]

        def bad_loadtxt(f, dtype="float64", **kw):
            raise ValueError("the number of columns changed from 4 to 2 at row 2; use `usecols` to select a subset")

        npx.NP.loadtxt = bad_loadtxt
        old_open = vio.__dict__.get("open")
        vio.open = _fake_open_factory(lambda: FakeFile(lines, None))
        mine = FakeFile(lines, None)
        try:
            try:
                vd.load_surfer("some/path.grd" if via_path else mine)
                raised = False
            except (IOError, ValueError):
                raised = True
        finally:
            if old_open is None:
                del vio.open
            else:
                vio.open = old_open
            del npx.NP.loadtxt
        ctx.claim("an unreadable body is refused with an error", raised)
        if via_path:
            ctx.claim("a file opened by load_surfer is closed when reading the body fails", And(len(OPENED) == 1, all(f.closed for f in OPENED)))
        else:
            ctx.claim("a caller's file object is left open when reading the body fails", And(len(OPENED) == 0, not mine.closed))
        return
    tmp = tempfile.mkdtemp(prefix="symx_c19_", dir="/dev/shm" if os.path.isdir("/dev/shm") else None)
    path = os.path.join(tmp, "ragged.grd")
    with open(path, "w") as fh:
        fh.write("DSAA\n2 6\n%r %r%s\n%r %r\n0.0 1.0\n" % (float(s), float(n), " 1.0" if bad_header else "", float(w), float(e)))
        fh.write("0.0 0.1 0.2 0.3\n0.4 0.5\n0.6 0.7 0.8 0.9\n1.0 0.5\n")
    real_opened = []

    def recording_open(*a, **kw):
        fh = open(*a, **kw)
        real_opened.append(fh)
        return fh

    vio.open = recording_open
    fobj = None
    try:
        try:
            if via_path:
                vd.load_surfer(path)
            else:
                fobj = open(path)
                vd.load_surfer(fobj)
            raised = False
        except (IOError, ValueError):
            raised = True
        ctx.claim("an unreadable body is refused with an error", raised)
        if via_path:
            ctx.claim("a file opened by load_surfer is closed when reading the body fails", And(len(real_opened) == 1, all(fh.closed for fh in real_opened)))
        else:
            ctx.claim("a caller's file object is left open when reading the body fails", And(len(real_opened) == 0, not fobj.closed))
    finally:
        del vio.open
        for fh in real_opened + ([fobj] if fobj else []):
            fh.close()
        try:
            os.remove(path)
            os.rmdir(tmp)
        except OSError:
            pass


def _cfg(tier, seed):
    out = [{"shape": (2, 2), "path": True}, {"shape": (2, 3), "path": False, "blankable": 2, "fmt": "tabs"}, {"shape": (3, 2), "path": True, "blankable": 1, "dtype": "float32"}, {"shape": (2, 2), "path": True, "blankable": 1, "dtype": "float64", "fmt": "tabs"}]
    if tier == "thorough":
        out += [{"shape": (2, 3), "path": True}, {"shape": (3, 2), "path": False}, {"shape": (3, 3), "path": False, "blankable": 3}]
    return out


HARNESSES = [
    Harness("unreadable_body", h_unreadable, {"quick": [{"path": True}, {"path": False}, {"path": True, "kind": "header"}, {"path": False, "kind": "header"}]}, bounds="symbolic header ranges; the body parser raises (ragged wrapped rows in the replay's real file), or a header range line holds three numbers", stubs=["np.loadtxt -> raises ValueError (symbolic run)", "builtin open -> fake file recording close()"]),
    Harness(
        "load_surfer",
        h_load,
        _cfg,
        bounds="header shape symbolic in 2..3 x 2..3 (equal to the body's or not), symbolic header ranges and data range, planted symbolic field of shape 2x2 / 2x3 (quick) up to 3x3 (thorough) with every blanking pattern (cells >= 1.70141e38) forked; path and open-file-object inputs; default / float32 / float64 dtype; replay files in two layouts (single blanks and repr numbers; tabs, runs of blanks, padded grid id, exponent notation, CRLF)",
        stubs=["np.loadtxt -> planted field (symbolic run)", "builtin open -> fake file recording close()", "np.ma.masked_where -> masked object array with merged min/max"],
        outside="everything np.loadtxt does: tokenising, whitespace, number formatting, wrapped rows, dtype conversion (OUT-LIB); that part is exercised only by the replays, which write real files",
        timeout_s=900,
    ),
]
