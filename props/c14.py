"""C14 Rolling and expanding windows select exactly the points inside each window.

Real functions executed: verde.coordinates.rolling_window,
_check_rolling_window_overlap, expanding_window, grid_coordinates, get_region;
verde.utils.kdtree; numpy.unravel_index. cKDTree.query_ball_point replaced by its
contract (exactly the points with max(|dx|,|dy|) <= r)."""
from fractions import Fraction

import numpy as np

from verde import coordinates as vc

from symx import stubs
from symx.engine import And, Or, Not, Implies, eq, le, lt, ge, gt, sabs, CBool
from symx.harness import Harness

HALF = Fraction(1, 2)
ASSUMPTIONS = [
    "cKDTree.query_ball_point(X, r, p=inf) returns exactly the points with max(|dx|, |dy|) <= r (OUT-LIB; validated by witness replays)",
    "exact real arithmetic (points within round-off of a window edge are outside the claim, as in the property)",
]


def _globals(cfg):
    return stubs.kdtree_globals()


def _points(ctx, cfg):
    sh = tuple(cfg["pshape"])
    if cfg.get("int_coords"):
        # integer-valued coordinates stored with an integer dtype (modelled dtype in the symbolic run,
        # real int64 arrays in the replay)
        from symx import npx

        ei, ni = ctx.ints("e", sh, -9, 9), ctx.ints("n", sh, -9, 9)
        if ctx.sym:
            return npx.SymArray(ei, "int64"), npx.SymArray(ni, "int64"), ctx.reals("x", sh)
        return np.asarray(ei, dtype=np.int64), np.asarray(ni, dtype=np.int64), ctx.reals("x", sh)
    e = ctx.reals("e", sh)
    n = ctx.reals("n", sh)
    x = ctx.reals("x", sh)
    if cfg.get("mem"):
        from symx.harness import relayout

        e, n = relayout(e, cfg["mem"]), relayout(n, cfg["mem"])
    return e, n, x


def _member_claims(ctx, centers, indices, e, n, size, label=""):
    sh = e.shape
    ctx.claim("index array has the shape of the window centres", indices.shape == centers[0].shape)
    if indices.shape != centers[0].shape:
        return None
    member = {}
    for widx in np.ndindex(*centers[0].shape):
        ind = indices[widx]
        ctx.claim("indices come as a tuple with one integer array per input dimension", isinstance(ind, tuple) and len(ind) == len(sh) and all(np.asarray(a).dtype.kind == "i" for a in ind))
        if not (isinstance(ind, tuple) and len(ind) == len(sh)):
            return None
        chosen = set(zip(*[tuple(int(v) for v in a) for a in ind])) if len(ind[0]) else set()
        ctx.claim("no point listed twice", len(chosen) == len(ind[0]))
        ce, cn = centers[0][widx], centers[1][widx]
        for pidx in np.ndindex(*sh):
            inwin = And(le(sabs(e[pidx] - ce), size * HALF), le(sabs(n[pidx] - cn), size * HALF))
            isin = pidx in chosen
            member[(widx, pidx)] = isin
            ctx.claim("window selects exactly the points within half the window size of its centre (closed square)", inwin if isin else Not(inwin))
        ctx.claim("indices are valid positions of the input", all(all(0 <= c[d] < sh[d] for d in range(len(sh))) for c in chosen))
    return member


def h_rolling(ctx):
    cfg = ctx.cfg
    e, n, x = _points(ctx, cfg)
    size = ctx.real("size")
    ctx.assume(size > 0)
    kw = {}
    if cfg["region"] == "given":
        w, ee, s, no = ctx.real("W"), ctx.real("E"), ctx.real("S"), ctx.real("N")
        ctx.assume(w <= ee)
        ctx.assume(s <= no)
        region = (w, ee, s, no)
        kw["region"] = region
        if cfg.get("region_array"):
            # the region handed over as an array (and used again afterwards by the caller)
            kw["region"] = np.array(region, dtype=object) if ctx.sym else np.array([float(v) for v in region])
    else:
        region = vc.get_region((e, n))
    gkw = {}
    if cfg.get("shape"):
        gkw["shape"] = tuple(cfg["shape"])
    else:
        if cfg.get("spacing2"):
            # per-direction spacing (s_north, s_east)
            sp_n, sp_e = ctx.real("spacing_n"), ctx.real("spacing_e")
            ctx.assume(sp_n > 0)
            ctx.assume(sp_e > 0)
            gkw["spacing"] = (sp_n, sp_e)
        else:
            sp_n = sp_e = sp = ctx.real("spacing")
            ctx.assume(sp > 0)
            gkw["spacing"] = sp
        gkw["adjust"] = cfg.get("adjust", "spacing")
        # bound the number of windows per axis
        ctx.assume((region[1] - region[0]) - size <= sp_e * Fraction(cfg["maxq"]))
        ctx.assume((region[3] - region[2]) - size <= sp_n * Fraction(cfg["maxq"]))
    minwidth = region[1] - region[0]
    mw2 = region[3] - region[2]
    try:
        centers, indices = vc.rolling_window((e, n, x), size, **kw, **gkw)
    except ValueError:
        # exact reals: strictly larger. Replay on doubles: a window equal to the region side within
        # round-off may be refused because the shrunk region inverts by one ulp (OUT-FP, not claimed)
        rej = Or(lt(minwidth, size), lt(mw2, size)) if ctx.sym else Or(le(minwidth, size), le(mw2, size))
        ctx.claim("rejected only when the window is larger than the region", rej)
        return
    ctx.claim("accepted only when the window fits in the region", And(ge(minwidth, size), ge(mw2, size)))
    if cfg.get("region_array"):
        ctx.claim("a region given as an array is left as it was", And([eq(a, b) for a, b in zip(kw["region"], region)]))
        again = vc.rolling_window((e, n, x), size, **kw, **gkw)
        ctx.claim("a second call with the same region array gives the same centres", And(np.shape(again[0][0]) == np.shape(centers[0]), And([eq(a, b) for a, b in zip(np.ravel(again[0][0]), np.ravel(centers[0]))] + [eq(a, b) for a, b in zip(np.ravel(again[0][1]), np.ravel(centers[1]))]) if np.shape(again[0][0]) == np.shape(centers[0]) else False))
    shrunk = (region[0] + size * HALF, region[1] - size * HALF, region[2] + size * HALF, region[3] - size * HALF)
    ref = vc.grid_coordinates(shrunk, **gkw)
    ctx.claim("centres form the regular grid of the region shrunk by half a window", And(len(centers) == 2, centers[0].shape == ref[0].shape, centers[1].shape == ref[1].shape))
    if centers[0].shape != ref[0].shape:
        return
    for a, b in zip(list(centers[0].ravel()) + list(centers[1].ravel()), list(ref[0].ravel()) + list(ref[1].ravel())):
        ctx.claim("window centre equals the grid_coordinates node", eq(a, b))
    if cfg.get("shape"):
        # the same, spelt out: shape = (windows along northing, windows along easting), evenly spread over the shrunk region
        wn, we_ = tuple(cfg["shape"])
        ctx.claim("a shape gives that many windows along (northing, easting)", centers[0].shape == (wn, we_))
        if centers[0].shape == (wn, we_):
            for i in range(wn):
                for j in range(we_):
                    ctx.claim("centre (i, j) sits at the j-th of the easting steps and the i-th of the northing steps of the shrunk region", And(eq(centers[0][i, j] * max(we_ - 1, 1), shrunk[0] * max(we_ - 1, 1) + j * (shrunk[1] - shrunk[0])), eq(centers[1][i, j] * max(wn - 1, 1), shrunk[2] * max(wn - 1, 1) + i * (shrunk[3] - shrunk[2]))))
    if not (cfg.get("adjust") == "region"):
        for widx in np.ndindex(*centers[0].shape):
            ce, cn = centers[0][widx], centers[1][widx]
            ctx.claim("every window lies inside the region", And(ge(ce - size * HALF, region[0]), le(ce + size * HALF, region[1]), ge(cn - size * HALF, region[2]), le(cn + size * HALF, region[3])))
    member = _member_claims(ctx, centers, indices, e, n, size)
    if member is None:
        return
    # coverage when the realised step does not exceed the window size
    if not (cfg.get("adjust") == "region"):
        ny, nx = centers[0].shape
        # a single centre along an axis has no step: its window must then span that axis
        ov_e = le(centers[0][0, 1] - centers[0][0, 0], size) if nx > 1 else le(region[1] - region[0], size)
        ov_n = le(centers[1][1, 0] - centers[1][0, 0], size) if ny > 1 else le(region[3] - region[2], size)
        overlap = And(ov_e, ov_n)
        for pidx in np.ndindex(*e.shape):
            if ctx.sym:
                inreg = And(ge(e[pidx], region[0]), le(e[pidx], region[1]), ge(n[pidx], region[2]), le(n[pidx], region[3]))
            else:
                # replay on doubles: the property itself excludes points within round-off of the region border
                mg = 1e-9 * (1.0 + max(abs(float(v)) for v in region) + abs(float(size)))
                inreg = CBool(float(region[0]) + mg < float(e[pidx]) < float(region[1]) - mg and float(region[2]) + mg < float(n[pidx]) < float(region[3]) - mg)
            covered = any(member[(widx, pidx)] for widx in np.ndindex(*centers[0].shape))
            ctx.claim("when the step between centres does not exceed the window size every point of the region is selected at least once", True if covered else Not(And(overlap, inreg)))


def h_expanding(ctx):
    cfg = ctx.cfg
    e, n, x = _points(ctx, cfg)
    ce, cn = ctx.real("ce"), ctx.real("cn")
    nsz = cfg["nsizes"]
    sizes = [ctx.real("size%d" % k) for k in range(nsz)]
    for sz in sizes:
        ctx.assume(sz > 0)
    if cfg.get("center3"):
        # the centre may carry further coordinates (easting, northing, vertical, ...): only the first two are used
        out = vc.expanding_window((e, n, x), (ce, cn, ctx.real("cz")), sizes)
    else:
        out = vc.expanding_window((e, n, x), (ce, cn), sizes)
    ctx.claim("one index set per size, in the order given", isinstance(out, list) and len(out) == nsz)
    if len(out) != nsz:
        return
    sh = e.shape
    sets = []
    for k, ind in enumerate(out):
        ctx.claim("indices come as a tuple with one integer array per input dimension", isinstance(ind, tuple) and len(ind) == len(sh) and all(np.asarray(a).dtype.kind == "i" for a in ind))
        chosen = set(zip(*[tuple(int(v) for v in a) for a in ind])) if len(ind[0]) else set()
        sets.append(chosen)
        for pidx in np.ndindex(*sh):
            inwin = And(le(sabs(e[pidx] - ce), sizes[k] * HALF), le(sabs(n[pidx] - cn), sizes[k] * HALF))
            ctx.claim("expanding window k selects exactly the points within half of size k of the centre", inwin if pidx in chosen else Not(inwin))
    for a in range(nsz):
        for b in range(nsz):
            if a != b and not sets[a] <= sets[b]:
                ctx.claim("windows are nested by size", Not(le(sizes[a], sizes[b])))


def h_errors(ctx):
    e, n = ctx.reals("e", 2), ctx.reals("n", 2)
    size = ctx.real("size")
    ctx.assume(size > 0)
    try:
        vc.rolling_window((e, n), size)
        ctx.claim("neither shape nor spacing rejected", False)
    except ValueError:
        ctx.claim("neither shape nor spacing rejected", True)
    try:
        vc.rolling_window((e, ctx.reals("m", 3)), size, shape=(2, 2))
        ctx.claim("coordinate arrays of different shapes rejected", False)
    except ValueError:
        ctx.claim("coordinate arrays of different shapes rejected", True)


def _cfg_rolling(tier, seed):
    q = [
        {"pshape": (1,), "region": "given", "shape": (2, 2)},
        {"pshape": (1,), "region": "given", "maxq": "1", "adjust": "spacing"},
        {"pshape": (2,), "region": "inferred", "shape": (1, 2)},
        {"pshape": (1,), "region": "given", "maxq": "1", "adjust": "region"},
        {"pshape": (1,), "region": "given", "shape": (1, 2)},
        {"pshape": (2, 2), "region": "given", "shape": (1, 1), "mem": "F"},
        {"pshape": (1,), "region": "given", "shape": (1, 2), "int_coords": True},
        {"pshape": (1, 2), "region": "given", "shape": (2, 1)},
        {"pshape": (1,), "region": "given", "maxq": "1", "adjust": "spacing", "spacing2": True},
        {"pshape": (2,), "region": "inferred", "maxq": "1", "adjust": "spacing"},
        {"pshape": (1,), "region": "given", "shape": (1, 2), "region_array": True},
    ]
    if tier == "quick":
        return q
    return q + [
        {"pshape": (1,), "region": "given", "maxq": "3/2", "adjust": "spacing"},
        {"pshape": (1,), "region": "given", "maxq": "3/2", "adjust": "region"},
        {"pshape": (2,), "region": "given", "shape": (2, 2)},
        {"pshape": (1,), "region": "given", "shape": (3, 3)},
        {"pshape": (1,), "region": "given", "shape": (2, 3)},
        {"pshape": (1,), "region": "given", "maxq": "1", "adjust": "region", "spacing2": True},
        {"pshape": (2, 2), "region": "inferred", "shape": (1, 1)},
        {"pshape": (1,), "region": "given", "maxq": "5/2", "adjust": "spacing"},
        {"pshape": (2,), "region": "given", "maxq": "1", "adjust": "spacing"},
    ]


HARNESSES = [
    Harness(
        "rolling_window",
        h_rolling,
        _cfg_rolling,
        bounds="symbolic region (given or inferred), window size, spacing and 1-2 points (quick) / up to a 2x2 array (thorough) with an extra coordinate; window layouts up to 2x2 (quick) / 3x3 (thorough); both adjust modes",
        stubs=["scipy.spatial.cKDTree -> StubKDTree (ball-query contract)"],
        extra_globals=_globals,
        outside="OUT-LIB (ball query); OUT-FP; for adjust='region' only equality with grid_coordinates of the shrunk region is claimed (windows may then leave the region by design)",
        timeout_s=900,
    ),
    Harness(
        "expanding_window",
        h_expanding,
        lambda tier, seed: [{"pshape": (2,), "nsizes": 2}, {"pshape": (1, 2), "nsizes": 1}, {"pshape": (2, 2), "nsizes": 1, "mem": "T"}, {"pshape": (2,), "nsizes": 1, "int_coords": True}, {"pshape": (2,), "nsizes": 2, "center3": True}] + ([{"pshape": (2, 2), "nsizes": 2}, {"pshape": (2,), "nsizes": 3}] if tier == "thorough" else []),
        bounds="2-4 symbolic points (1-D and 2-D arrays, extra coordinate), symbolic centre (two components, or three with a vertical one), 1-3 symbolic sizes in any order",
        stubs=["scipy.spatial.cKDTree -> StubKDTree (ball-query contract)"],
        extra_globals=_globals,
        timeout_s=900,
    ),
    Harness("errors", h_errors, {"quick": [{}]}, bounds="symbolic points and size", extra_globals=_globals),
]
