"""C07 Regular coordinates honour region, spacing, shape and registration.

Real functions executed: verde.coordinates.spacing_to_size, line_coordinates,
grid_coordinates, shape_to_spacing, profile_coordinates (with real
numpy.linspace / meshgrid on object arrays)."""
from fractions import Fraction

import numpy as np

import verde as vd
from verde import coordinates as vc

from symx.engine import And, Or, Not, Implies, eq, le, lt, ge, gt, ite, sabs
from symx.harness import Harness

HALF = Fraction(1, 2)
ASSUMPTIONS = [
    "exact real arithmetic (OUT-FP): the interval count is claimed for the real quotient extent/spacing; replays use a 1e-9 margin",
    "numpy.linspace/meshgrid/arange run for real on object arrays",
    "hypot/arctan2/sin/cos are uninterpreted with the axioms hypot^2 = x^2+y^2, cos(atan2(y,x))*hypot = x, sin(atan2(y,x))*hypot = y",
]


def line_claims(tag, vals, start, stop, spacing, size, adjust, pixel):
    """closed-form claims for the nodes of one axis; returns list of (label, cond)"""
    out = []
    vals = list(np.asarray(vals).ravel())
    n = len(vals)
    extent = stop - start
    if spacing is not None:
        m = n if pixel else n - 1  # number of intervals
        out.append((tag + " at least one interval", m >= 1))
        if m < 1:
            return out
        # the integer nearest to extent/spacing, at least one (ties either way)
        out.append(
            (
                tag + " interval count is nearest integer to extent/spacing (>=1)",
                Or(
                    And(le(extent - m * spacing, spacing * HALF), le(m * spacing - extent, spacing * HALF)),
                    And(m == 1, lt(extent, spacing * HALF)),
                ),
            )
        )
        if adjust == "spacing":
            step = extent / m
        else:
            step = spacing
            out.append((tag + " adjust=region keeps the requested step", eq(vals[1] - vals[0], spacing) if n > 1 else True))
    else:
        m = size if pixel else size - 1
        out.append((tag + " node count equals requested size", n == size))
        if n != size:
            return out
        step = extent / m if m > 0 else 0
    first = start + step * HALF if pixel else start
    for k in range(n):
        out.append((tag + " node k = first + k*step", eq(vals[k], first + k * step)))
    if spacing is None or adjust == "spacing":
        if not pixel and n > 1:
            out.append((tag + " last node is the stop bound", eq(vals[-1], stop)))
        if pixel:
            out.append((tag + " last pixel centre is half a step before stop", eq(vals[-1], stop - step * HALF)))
    for k in range(n - 2):
        out.append((tag + " evenly spaced", eq(vals[k + 1] - vals[k], vals[k + 2] - vals[k + 1])))
    return out


# --------------------------------------------------------------------------- line_coordinates
def h_line_spacing(ctx):
    cfg = ctx.cfg
    start = ctx.real("start")
    stop = ctx.real("stop")
    spacing = ctx.real("spacing")
    ctx.assume(start <= stop)
    ctx.assume(spacing > 0)
    ctx.assume(stop - start <= spacing * Fraction(cfg["maxq"]))
    vals = vc.line_coordinates(start, stop, spacing=spacing, adjust=cfg["adjust"], pixel_register=cfg["pixel"])
    for l, c in line_claims("line", vals, start, stop, spacing, None, cfg["adjust"], cfg["pixel"]):
        ctx.claim(l, c)
    # spacing_to_size agrees with the node count and moves only the stop bound
    size, newstop = vc.spacing_to_size(start, stop, spacing, cfg["adjust"])
    ctx.claim("spacing_to_size size = nodes of the unshifted line", eq(size, len(vals) + (1 if cfg["pixel"] else 0)))
    if cfg["adjust"] == "spacing":
        ctx.claim("spacing_to_size keeps stop when adjusting the spacing", eq(newstop, stop))
    else:
        ctx.claim("spacing_to_size moves stop to a whole number of spacings", eq(newstop, start + (size - 1) * spacing))


def h_line_size(ctx):
    cfg = ctx.cfg
    start = ctx.real("start")
    stop = ctx.real("stop")
    ctx.assume(start <= stop)
    size = ctx.integer("size", 1, cfg["maxsize"])
    if size == 1 and not cfg["pixel"]:
        vals = vc.line_coordinates(start, stop, size=size, pixel_register=False)
        ctx.claim("single node is the start bound", And(len(vals) == 1, eq(vals[0], start)))
        return
    vals = vc.line_coordinates(start, stop, size=size, pixel_register=cfg["pixel"])
    n = len(vals)
    for l, c in line_claims("line(size)", vals, start, stop, None, n, "spacing", cfg["pixel"]):
        ctx.claim(l, c)
    ctx.claim("exactly the requested number of nodes", eq(size, n))


def h_line_errors(ctx):
    start = ctx.real("start")
    stop = ctx.real("stop")
    spacing = ctx.real("spacing")
    ctx.assume(spacing > 0)
    for kw in ({"size": 3, "spacing": spacing}, {}):
        try:
            vc.line_coordinates(start, stop, **kw)
            ctx.claim("both/neither of size and spacing rejected", False)
        except ValueError:
            ctx.claim("both/neither of size and spacing rejected", True)
    for kw in ({"shape": (2, 2), "spacing": spacing}, {}):
        try:
            vc.grid_coordinates((0, 1, 0, 1), **kw)
            ctx.claim("both/neither of shape and spacing rejected (grid)", False)
        except ValueError:
            ctx.claim("both/neither of shape and spacing rejected (grid)", True)
    try:
        vc.spacing_to_size(start, stop, spacing, "nearest")
        ctx.claim("invalid adjust rejected", False)
    except ValueError:
        ctx.claim("invalid adjust rejected", True)


# --------------------------------------------------------------------------- grid_coordinates
def _region(ctx, strict=False):
    w = ctx.real("W")
    e = ctx.real("E")
    s = ctx.real("S")
    n = ctx.real("N")
    ctx.assume(w < e if strict else w <= e)
    ctx.assume(s < n if strict else s <= n)
    return w, e, s, n


def h_grid_shape(ctx):
    cfg = ctx.cfg
    w, e, s, n = _region(ctx)
    shape = tuple(cfg["shape"])
    extra = None
    kw = {}
    if cfg.get("extra"):
        extra = [ctx.real("x0"), ctx.real("x1")][: cfg["extra"]]
        kw["extra_coords"] = extra if len(extra) > 1 else extra[0]
    coords = vc.grid_coordinates((w, e, s, n), shape=shape, pixel_register=cfg["pixel"], **kw)
    east, north = coords[0], coords[1]
    ctx.claim("grid shape is (n_north, n_east)", And(east.shape == shape, north.shape == shape))
    if east.shape != shape:
        return
    for l, c in line_claims("east", east[0, :], w, e, None, shape[1], "spacing", cfg["pixel"]):
        ctx.claim(l, c)
    for l, c in line_claims("north", north[:, 0], s, n, None, shape[0], "spacing", cfg["pixel"]):
        ctx.claim(l, c)
    for i in range(shape[0]):
        for j in range(shape[1]):
            ctx.claim("easting varies along columns only", eq(east[i, j], east[0, j]))
            ctx.claim("northing varies along rows only", eq(north[i, j], north[i, 0]))
    if extra:
        ctx.claim("one array per extra coordinate", len(coords) == 2 + len(extra))
        for k, x in enumerate(extra):
            ctx.claim("extra coordinate has the grid shape", coords[2 + k].shape == shape)
            for v in coords[2 + k].ravel():
                ctx.claim("extra coordinate is constant", eq(v, x))
    e1, n1 = vc.grid_coordinates((w, e, s, n), shape=shape, pixel_register=cfg["pixel"], meshgrid=False)
    ctx.claim("meshgrid=False returns 1-D vectors", And(np.ndim(e1) == 1, np.ndim(n1) == 1, len(e1) == shape[1], len(n1) == shape[0]))
    for j in range(min(len(e1), shape[1])):
        ctx.claim("meshgrid=False easting matches row 0", eq(e1[j], east[0, j]))
    for i in range(min(len(n1), shape[0])):
        ctx.claim("meshgrid=False northing matches column 0", eq(n1[i], north[i, 0]))
    # every call returns arrays of its own: writing into a result must not show in the next, identical request
    e2, n2 = vc.grid_coordinates((w, e, s, n), shape=shape, pixel_register=cfg["pixel"], meshgrid=False)
    ctx.claim("results of separate calls (and easting / northing of one call) are separate arrays", And(e2 is not e1, n2 is not n1, e1 is not n1, e2 is not n2))
    if len(e1) and e2 is not e1:
        keep = [v for v in e2]
        e1[...] = 12345.0
        n1[...] = -12345.0
        e3, n3 = vc.grid_coordinates((w, e, s, n), shape=shape, pixel_register=cfg["pixel"], meshgrid=False)
        ctx.claim("a repeated request is unaffected by what the caller did to an earlier result", And([eq(a, b) for a, b in zip(e3, keep)] + [eq(a, b) for a, b in zip(e2, keep)]))
    if cfg.get("extra"):
        try:
            vc.grid_coordinates((w, e, s, n), shape=shape, meshgrid=False, extra_coords=extra[0])
            ctx.claim("meshgrid=False with extra_coords rejected", False)
        except ValueError:
            ctx.claim("meshgrid=False with extra_coords rejected", True)


def h_grid_spacing(ctx):
    cfg = ctx.cfg
    w, e, s, n = _region(ctx)
    if cfg["per_direction"]:
        sn = ctx.real("spacing_n")
        se = ctx.real("spacing_e")
        spacing = (sn, se)
    else:
        sn = se = ctx.real("spacing")
        spacing = sn
    ctx.assume(sn > 0)
    ctx.assume(se > 0)
    ctx.assume(e - w <= se * Fraction(cfg["maxq"]))
    ctx.assume(n - s <= sn * Fraction(cfg["maxq"]))
    if cfg.get("extra"):
        # extra coordinates and the 1-D (meshgrid=False) form, here with a spacing instead of a shape
        x1, x2 = ctx.real("extra1"), ctx.real("extra2")
        east, north, up1, up2 = vc.grid_coordinates((w, e, s, n), spacing=spacing, adjust=cfg["adjust"], pixel_register=cfg["pixel"], extra_coords=[x1, x2])
        ctx.claim("extra coordinates: constant arrays of the grid's shape, in the order given", And(np.shape(up1) == np.shape(east), np.shape(up2) == np.shape(east), And([eq(v, x1) for v in np.ravel(up1)]), And([eq(v, x2) for v in np.ravel(up2)])))
        flat = vc.grid_coordinates((w, e, s, n), spacing=spacing, adjust=cfg["adjust"], pixel_register=cfg["pixel"], meshgrid=False)
        ok = len(flat) == 2 and np.shape(flat[0]) == (east.shape[1],) and np.shape(flat[1]) == (east.shape[0],)
        ctx.claim("meshgrid=False returns the easting and northing axis vectors of the same grid", And(ok, And([eq(a, b) for a, b in zip(flat[0], east[0, :])] + [eq(a, b) for a, b in zip(flat[1], north[:, 0])]) if ok else False))
    else:
        east, north = vc.grid_coordinates((w, e, s, n), spacing=spacing, adjust=cfg["adjust"], pixel_register=cfg["pixel"])
    ctx.claim("2-D arrays of equal shape", And(east.ndim == 2, east.shape == north.shape))
    for l, c in line_claims("east", east[0, :], w, e, se, None, cfg["adjust"], cfg["pixel"]):
        ctx.claim(l, c)
    for l, c in line_claims("north", north[:, 0], s, n, sn, None, cfg["adjust"], cfg["pixel"]):
        ctx.claim(l, c)
    for i in range(east.shape[0]):
        for j in range(east.shape[1]):
            ctx.claim("easting varies along columns only", eq(east[i, j], east[0, j]))
            ctx.claim("northing varies along rows only", eq(north[i, j], north[i, 0]))


def h_shape_to_spacing(ctx):
    cfg = ctx.cfg
    w, e, s, n = _region(ctx, strict=True)
    shape = tuple(cfg["shape"])
    pixel = cfg["pixel"]
    sp = vc.shape_to_spacing((w, e, s, n), shape, pixel_register=pixel)
    ctx.claim("two spacings (north, east)", len(sp) == 2)
    de = shape[1] if pixel else shape[1] - 1
    dn = shape[0] if pixel else shape[0] - 1
    ctx.claim("east spacing = extent / intervals", eq(sp[1] * de, e - w))
    ctx.claim("north spacing = extent / intervals", eq(sp[0] * dn, n - s))
    # inverts the shape: gridding with that spacing gives the shape back
    east, north = vc.grid_coordinates((w, e, s, n), spacing=sp, pixel_register=pixel)
    ctx.claim("grid_coordinates(spacing=shape_to_spacing(shape)) has that shape", east.shape == shape)
    ref = vc.grid_coordinates((w, e, s, n), shape=shape, pixel_register=pixel)
    if east.shape == shape:
        for a, b in zip(east.ravel(), ref[0].ravel()):
            ctx.claim("same easting nodes as the shape-based grid", eq(a, b))
        for a, b in zip(north.ravel(), ref[1].ravel()):
            ctx.claim("same northing nodes as the shape-based grid", eq(a, b))


def h_profile(ctx):
    cfg = ctx.cfg
    p1 = (ctx.real("x1"), ctx.real("y1"))
    p2 = (ctx.real("x2"), ctx.real("y2"))
    size = cfg["size"]
    kw = {}
    if cfg.get("extra"):
        x = ctx.real("extra")
        kw["extra_coords"] = [x, ctx.real("extra_b")] if cfg["extra"] == 2 else x
    coords, dist = vc.profile_coordinates(p1, p2, size, **kw)
    ctx.claim("size points", And(len(coords[0]) == size, len(coords[1]) == size, len(dist) == size))
    ctx.claim("easting, northing and one array per extra coordinate", len(coords) == 2 + (cfg.get("extra") or 0))
    dx = p2[0] - p1[0]
    dy = p2[1] - p1[1]
    den = max(size - 1, 1)
    for k in range(size):
        ctx.claim("profile point k lies at p1 + k/(size-1) (p2-p1) (easting)", eq(coords[0][k] * den, p1[0] * den + k * dx))
        ctx.claim("profile point k lies at p1 + k/(size-1) (p2-p1) (northing)", eq(coords[1][k] * den, p1[1] * den + k * dy))
        ctx.claim("distance is measured from the first point", And(ge(dist[k], 0), eq(dist[k] * dist[k] * den * den, (dx * dx + dy * dy) * k * k)))
    for k in range(size - 1):
        ctx.claim("distances increase", le(dist[k], dist[k + 1]))
    if cfg.get("extra"):
        ctx.claim("extra coordinates have one value per profile point", all(len(c) == size for c in coords[2:]))
        for v in coords[2]:
            ctx.claim("extra coordinate constant along the profile", eq(v, x))
        if cfg["extra"] == 2 and len(coords) == 4:
            for v in coords[3]:
                ctx.claim("second extra coordinate constant along the profile, in the order given", eq(v, kw["extra_coords"][1]))
    try:
        vc.profile_coordinates(p1, p2, 0)
        ctx.claim("size 0 rejected", False)
    except ValueError:
        ctx.claim("size 0 rejected", True)


def _cfgs_line(tier, seed):
    out = []
    for adjust in ("spacing", "region"):
        for pixel in (False, True):
            out.append({"adjust": adjust, "pixel": pixel, "maxq": "7/2" if tier == "quick" else "21/2"})
    return out


def _cfgs_grid_spacing(tier, seed):
    out = []
    for adjust in ("spacing", "region"):
        for pixel in (False, True):
            for per in (False, True):
                out.append({"adjust": adjust, "pixel": pixel, "per_direction": per, "maxq": ("3/2" if per and pixel else "5/2") if tier == "quick" else "9/2", "extra": per and not pixel})
    return out


def _cfgs_grid_shape(tier, seed):
    shapes = [(1, 1), (1, 3), (3, 1), (2, 3), (3, 2)] if tier == "quick" else [(a, b) for a in range(1, 6) for b in range(1, 6)]
    out = []
    for sh in shapes:
        for pixel in (False, True):
            out.append({"shape": sh, "pixel": pixel, "extra": 0})
    out.append({"shape": (2, 3), "pixel": False, "extra": 2})
    out.append({"shape": (3, 2), "pixel": True, "extra": 1})
    return out


def _cfgs_s2s(tier, seed):
    shapes = [(2, 3), (3, 2), (2, 2)] if tier == "quick" else [(a, b) for a in range(2, 7) for b in range(2, 7)]
    out = [{"shape": sh, "pixel": p} for sh in shapes for p in (False, True)]
    # a single row or column is a valid shape for pixel registration (one cell spanning the region)
    return out + [{"shape": sh, "pixel": True} for sh in ([(1, 3), (3, 1)] if tier == "quick" else [(1, 1), (1, 3), (3, 1), (1, 5)])]


HARNESSES = [
    Harness(
        "line_spacing",
        h_line_spacing,
        _cfgs_line,
        bounds="start <= stop, spacing > 0 symbolic reals (unbounded magnitude); extent/spacing <= 3.5 (quick) / 10.5 (thorough): up to 11 intervals forked; both adjust modes x both registrations",
        outside="more intervals per axis than the bound; OUT-FP",
    ),
    Harness(
        "line_size",
        h_line_size,
        lambda tier, seed: [{"pixel": p, "maxsize": 4 if tier == "quick" else 10} for p in (False, True)],
        bounds="start <= stop symbolic; size symbolic integer in 1..4 (quick) / 1..10 (thorough), forked",
    ),
    Harness("errors", h_line_errors, {"quick": [{}]}, bounds="symbolic start/stop/spacing"),
    Harness(
        "grid_shape",
        h_grid_shape,
        _cfgs_grid_shape,
        bounds="region W<=E, S<=N symbolic (degenerate allowed); concrete shapes up to 3x3 (quick) / 5x5 (thorough), 0-2 symbolic extra coordinates",
        group=4,
    ),
    Harness(
        "grid_spacing",
        h_grid_spacing,
        _cfgs_grid_spacing,
        bounds="region symbolic; scalar or per-direction symbolic spacing; extent/spacing <= 2.5 (quick) / 4.5 (thorough) per axis",
    ),
    Harness(
        "shape_to_spacing",
        h_shape_to_spacing,
        _cfgs_s2s,
        bounds="region W<E, S<N symbolic; shapes 2..3 (quick) / 2..6 (thorough) per axis; both registrations",
        engine={"oneshot": True},
    ),
    Harness(
        "profile",
        h_profile,
        lambda tier, seed: [{"size": s, "extra": x} for s in ((1, 2, 3) if tier == "quick" else (1, 2, 3, 4, 5)) for x in (0, 1)] + [{"size": 2, "extra": 2}],
        bounds="end points symbolic; size 1..3 (quick) / 1..5 (thorough); none, one or a list of two symbolic extra coordinates",
        outside="OUT-TRANSC: values of hypot/arctan2/cos/sin",
        engine={"oneshot": True},
    ),
]
