"""C06 Chain, Vector and filter compose estimators without leaking or losing data.

Real functions executed: verde.chain.Chain.fit / predict, verde.vector.Vector.fit /
predict, verde.base.base_classes.BaseGridder.filter, verde.blockreduce.BlockReduce.filter,
verde.trend.Trend.fit / predict / jacobian, verde.base.least_squares.least_squares,
verde.base.utils.check_fit_input."""
from fractions import Fraction

import numpy as np
import z3

import verde as vd

from symx import stubs, gridders, npx
from symx import engine as E
from symx.gridders import UFGridder, P, fits_of
from symx.engine import And, Or, Not, Implies, eq, le, lt, ge, gt
from symx.harness import Harness

ASSUMPTIONS = [
    "steps are real BaseGridder subclasses with uninterpreted predictions P(id, fit#, component, e, n), a real Trend (sklearn replaced by the normal-equation contract), real BlockReduce (block_split by the C08 contract), nested Chain and Vector",
    "exact real arithmetic",
]


def _globals(cfg):
    g = dict(stubs.regression_globals())
    g[("verde.blockreduce", "block_split")] = stubs.BlockSplitContract()
    return g


def _mean(ctx):
    return (lambda v, **kw: np.mean(np.asarray(getattr(v, "values", v)))) if ctx.sym else np.mean


def _dataset(ctx, tag, shape, ncomp, weighted):
    e = ctx.reals(tag + "e", shape)
    n = ctx.reals(tag + "n", shape)
    data = [ctx.reals(tag + "d%d" % c, shape) for c in range(ncomp)]
    weights = [ctx.reals(tag + "w%d" % c, shape, None, None) for c in range(ncomp)] if weighted else None
    if weighted:
        for wc in weights:
            for v in wc.ravel():
                ctx.assume(v > 0)
    return e, n, data, weights


def _args(data, weights, ncomp):
    darg = tuple(data) if ncomp > 1 else data[0]
    warg = None if weights is None else (tuple(weights) if ncomp > 1 else weights[0])
    return darg, warg


def h_chain_uf(ctx):
    cfg = ctx.cfg
    gridders.reset()
    nsteps, ncomp, shape = cfg["nsteps"], cfg.get("ncomp", 1), tuple(cfg["shape"])
    steps = [UFGridder(ident=k + 1, ncomp=ncomp) for k in range(nsteps)]
    # step names are labels only; with same_names every step carries the same one
    chain = vd.Chain([("step" if cfg.get("same_names") else "s%d" % k, st) for k, st in enumerate(steps)])
    qe, qn = ctx.reals("qe", 2), ctx.reals("qn", 2)
    for rnd, tag in enumerate(["A", "B"][: cfg.get("rounds", 1)]):
        fitno = rnd + 1
        e, n, data, weights = _dataset(ctx, tag, shape, ncomp, cfg.get("weighted", False))
        coords = (e, n)
        darg, warg = _args(data, weights, ncomp)
        for a in [e, n] + data + (weights or []):
            a.setflags(write=False)
        ret = chain.fit(coords, darg, warg)
        ctx.claim("fit returns the chain", ret is chain)
        for k, st in enumerate(steps):
            fits = fits_of(st)
            ctx.claim("each step is fitted exactly once per chain fit", len(fits) == fitno)
            if len(fits) != fitno:
                return
            rec = fits[-1]
            ctx.claim("step receives the coordinates it was given by the previous step (same arrays)", And(len(rec["coordinates"]) == 2, rec["coordinates"][0] is e, rec["coordinates"][1] is n))
            rd = list(rec["data"]) if ncomp > 1 else [rec["data"]]
            ctx.claim("step receives as many data components as the chain", len(rd) == ncomp and isinstance(rec["data"], tuple) == (ncomp > 1))
            for c in range(ncomp):
                ctx.claim("residuals keep the data's shape", np.shape(rd[c]) == shape)
                if np.shape(rd[c]) != shape:
                    return
                for idx in np.ndindex(*shape):
                    exp = data[c][idx]
                    for s in range(k):
                        exp = exp - P(s + 1, fitno, c, e[idx], n[idx])
                    ctx.claim("step k+1 is fitted on exactly the residuals left by steps 1..k", eq(rd[c][idx], exp))
            if weights is None:
                ctx.claim("weights stay None along the chain", rec["weights"] is None)
            else:
                rw = list(rec["weights"]) if ncomp > 1 else [rec["weights"]]
                for c in range(ncomp):
                    ctx.claim("weights threaded unchanged along the chain", And([eq(a, b) for a, b in zip(np.ravel(rw[c]), np.ravel(weights[c]))] + [np.size(rw[c]) == weights[c].size]))
            if ctx.sym and rnd == 1:
                names = set()
                for c in range(ncomp):
                    for v in np.ravel(rd[c]):
                        names |= _vars(E.T(v))
                ctx.claim("after a refit no step sees anything of the first dataset", not any(nm.startswith("A") for nm in names))
        pred = chain.predict((qe, qn))
        preds = list(pred) if ncomp > 1 else [pred]
        ctx.claim("prediction is a tuple iff several components", isinstance(pred, tuple) == (ncomp > 1))
        for c in range(ncomp):
            ctx.claim("prediction has the query shape", np.shape(preds[c]) == (2,))
            if np.shape(preds[c]) != (2,):
                continue
            for i in range(2):
                ctx.claim("chain prediction is the sum of the steps' predictions", eq(preds[c][i], sum(P(s + 1, fitno, c, qe[i], qn[i]) for s in range(nsteps))))
        # prediction at the data + last residual = data
        atdata = chain.predict(coords)
        atd = list(atdata) if ncomp > 1 else [atdata]
        last = fits_of(steps[-1])[-1]
        ld = list(last["data"]) if ncomp > 1 else [last["data"]]
        for c in range(ncomp):
            if np.size(atd[c]) != int(np.prod(shape)):
                ctx.claim("prediction at the data has the data's size", False)
                continue
            for idx in np.ndindex(*shape):
                resid = ld[c][idx] - P(nsteps, fitno, c, e[idx], n[idx])
                ctx.claim("chain prediction at the data plus the last step's residual equals the data", eq(np.reshape(atd[c], shape)[idx] + resid, data[c][idx]))


def _vars(t):
    out = set()
    seen = set()
    stack = [t]
    while stack:
        x = stack.pop()
        if x.get_id() in seen:
            continue
        seen.add(x.get_id())
        if z3.is_const(x) and x.decl().kind() == z3.Z3_OP_UNINTERPRETED:
            out.add(x.decl().name())
        stack.extend(x.children())
    return out


def h_filter(ctx):
    cfg = ctx.cfg
    gridders.reset()
    ncomp, shape = cfg.get("ncomp", 1), tuple(cfg["shape"])
    e, n, data, weights = _dataset(ctx, "", shape, ncomp, cfg.get("weighted", False))
    x = ctx.reals("x", shape)
    g = UFGridder(ident=7, ncomp=ncomp)
    if cfg.get("int_data"):
        # integer-valued data stored with an integer dtype: residuals are still data minus the (real-valued) prediction
        ivals = [ctx.ints("i%d" % c, shape, -20, 20) for c in range(ncomp)]
        data = [np.array(v, dtype=object) if ctx.sym else np.asarray(v, dtype=float) for v in ivals]
        typed = [npx.SymArray(v, "int64") if ctx.sym else np.asarray(v, dtype=np.int64) for v in ivals]
        darg = tuple(typed) if ncomp > 1 else typed[0]
        warg = None if weights is None else (tuple(weights) if ncomp > 1 else weights[0])
    else:
        darg, warg = _args(data, weights, ncomp)
    coords = (e, n, x)
    out = g.filter(coords, darg, warg)
    ctx.claim("filter returns (coordinates, residuals, weights)", len(out) == 3)
    ctx.claim("filter returns the coordinates it was given", out[0] is coords)
    ctx.claim("filter returns the weights it was given", out[2] is warg)
    res = list(out[1]) if ncomp > 1 else [out[1]]
    ctx.claim("residuals: tuple iff several components", isinstance(out[1], tuple) == (ncomp > 1))
    for c in range(ncomp):
        ctx.claim("residuals in the data's shape", np.shape(res[c]) == shape)
        for idx in np.ndindex(*shape):
            ctx.claim("residual = data - prediction at the same point", eq(res[c][idx], data[c][idx] - P(7, 1, c, e[idx], n[idx])))


def h_vector(ctx):
    cfg = ctx.cfg
    gridders.reset()
    ncomp, shape = cfg["ncomp"], tuple(cfg["shape"])
    e, n, data, weights = _dataset(ctx, "", shape, ncomp, cfg.get("weighted", False))
    comps = [UFGridder(ident=k + 1) for k in range(ncomp)]
    vec = vd.Vector(comps)
    coords = (e, n)
    vec.fit(coords, tuple(data), None if weights is None else tuple(weights))
    for k, comp in enumerate(comps):
        fits = fits_of(comp)
        ctx.claim("each component fitted once", len(fits) == 1)
        rec = fits[0]
        ctx.claim("component i is fitted on data[i] only", And(np.shape(rec["data"]) == shape, And([eq(a, b) for a, b in zip(np.ravel(rec["data"]), data[k].ravel())])))
        if weights is None:
            ctx.claim("no weights: component gets None", rec["weights"] is None)
        else:
            ctx.claim("component i is fitted with weights[i] only", And(np.size(rec["weights"]) == weights[k].size, And([eq(a, b) for a, b in zip(np.ravel(rec["weights"]), weights[k].ravel())])))
        ctx.claim("component gets the coordinates", And(rec["coordinates"][0] is e, rec["coordinates"][1] is n))
    qe, qn = ctx.reals("qe", 2), ctx.reals("qn", 2)
    pred = vec.predict((qe, qn))
    ctx.claim("prediction is a tuple with one entry per component", isinstance(pred, tuple) and len(pred) == ncomp)
    for k in range(ncomp):
        sep = UFGridder(ident=k + 1)
        sep.fit(coords, data[k], None if weights is None else weights[k])
        sp = sep.predict((qe, qn))
        for i in range(2):
            ctx.claim("vector prediction equals the separately fitted component's", eq(pred[k][i], sp[i]))
    for bad, kw in (("data not a tuple", dict(data=data[0], weights=None)), ("weights not a tuple", dict(data=tuple(data), weights=data[0]))):
        try:
            vd.Vector([UFGridder(ident=9) for _ in range(ncomp)]).fit(coords, kw["data"], kw["weights"])
            ctx.claim("Vector.fit rejects %s" % bad, False)
        except ValueError:
            ctx.claim("Vector.fit rejects %s" % bad, True)


def h_chain_mixed(ctx):
    cfg = ctx.cfg
    gridders.reset()
    stubs.reset_logs()
    stubs.SCALE_CONTRACT["exact"] = False  # the value of the scale is irrelevant to the composition claims
    kind = cfg["kind"]
    npts = cfg.get("npts", 4)
    e, n, data, weights = _dataset(ctx, "", (npts,), 1, cfg.get("weighted", False))
    d, w = data[0], (weights[0] if weights else None)
    coords = (e, n)
    qe, qn = ctx.reals("qe", 2), ctx.reals("qn", 2)
    last = UFGridder(ident=2)
    if kind == "trend":
        first = vd.Trend(degree=1)
        chain = vd.Chain([("trend", first), ("uf", last)])
        chain.fit(coords, d, w)
        rec = fits_of(last)[0]
        tp = first.predict(coords)
        for i in range(npts):
            ctx.claim("step after a Trend is fitted on data minus the trend at the data points", eq(rec["data"][i], d[i] - tp[i]))
        ctx.claim("weights pass through the trend step", (rec["weights"] is None) if w is None else And([eq(a, b) for a, b in zip(rec["weights"], w)]))
        pred = chain.predict((qe, qn))
        tq = first.predict((qe, qn))
        for i in range(2):
            ctx.claim("chain prediction = trend + next step", eq(pred[i], tq[i] + P(2, 1, 0, qe[i], qn[i])))
    elif kind == "reduce":
        members = cfg["members"]
        shape = tuple(cfg["bshape"])
        rw, re_, rs, rn = ctx.real("W"), ctx.real("E"), ctx.real("S"), ctx.real("N")
        ctx.assume(rw < re_)
        ctx.assume(rs < rn)
        region = (rw, re_, rs, rn)
        for p in range(npts):
            ctx.assume(stubs.in_block(ctx, e[p], n[p], region, shape, members[p]))
        red = _mean(ctx) if w is None else (npx.NP.average if ctx.sym else np.average)
        br = vd.BlockReduce(red, shape=shape, region=region)
        chain = vd.Chain([("reduce", br), ("uf", last)])
        chain.fit(coords, d, w)
        rec = fits_of(last)[0]
        rc, rd = vd.BlockReduce(red, shape=shape, region=region).filter(coords, d, w)
        ctx.claim("step after a block reduction is fitted on the reduced coordinates and data, without weights", And(len(rec["coordinates"]) == 2, np.shape(rec["data"]) == np.shape(rd), rec["weights"] is None))
        if np.shape(rec["data"]) == np.shape(rd):
            for a, b in zip(rec["data"], rd):
                ctx.claim("reduced data handed on", eq(a, b))
            for k in range(2):
                for a, b in zip(rec["coordinates"][k], rc[k]):
                    ctx.claim("reduced coordinates handed on", eq(a, b))
        pred = chain.predict((qe, qn))
        for i in range(2):
            ctx.claim("steps without predict do not contribute to the prediction", eq(pred[i], P(2, 1, 0, qe[i], qn[i])))
    elif kind == "nested":
        nc = cfg.get("ncomp", 1)
        last = UFGridder(ident=2, ncomp=nc)
        inner = vd.Chain([("a", UFGridder(ident=3, ncomp=nc)), ("b", UFGridder(ident=4, ncomp=nc))])
        chain = vd.Chain([("first", UFGridder(ident=1, ncomp=nc)), ("inner", inner), ("uf", last)])
        comps = [d] + [ctx.reals("d%dx" % c, npts) for c in range(1, nc)]
        f = 1
        if cfg.get("refit"):
            # an earlier fit on other data (other size too) must leave no trace
            oe, on_ = ctx.reals("oe", npts + 1), ctx.reals("on", npts + 1)
            others = [ctx.reals("od%d" % c, npts + 1) for c in range(nc)]
            chain.fit((oe, on_), tuple(others) if nc > 1 else others[0])
            f = 2
        chain.fit(coords, tuple(comps) if nc > 1 else d, None if w is None else (tuple([w] * nc) if nc > 1 else w))
        rec = fits_of(last)[-1]
        rdat = list(rec["data"]) if nc > 1 else [rec["data"]]
        ctx.claim("one residual array per data component", len(rdat) == nc and all(np.shape(r) == (npts,) for r in rdat))
        if len(rdat) == nc and all(np.shape(r) == (npts,) for r in rdat):
            for c in range(nc):
                for i in range(npts):
                    exp = comps[c][i] - P(1, f, c, e[i], n[i]) - P(3, f, c, e[i], n[i]) - P(4, f, c, e[i], n[i])
                    ctx.claim("a nested chain removes the sum of its steps before the next step (component by component, latest fit only)", eq(rdat[c][i], exp))
        pred = chain.predict((qe, qn))
        preds = list(pred) if nc > 1 else [pred]
        for c in range(nc):
            for i in range(2):
                ctx.claim("prediction sums over nested steps too", eq(preds[c][i], P(1, f, c, qe[i], qn[i]) + P(3, f, c, qe[i], qn[i]) + P(4, f, c, qe[i], qn[i]) + P(2, f, c, qe[i], qn[i])))
    elif kind == "nested_reduce":
        members = cfg["members"]
        shape = tuple(cfg["bshape"])
        rw, re_, rs, rn = ctx.real("W"), ctx.real("E"), ctx.real("S"), ctx.real("N")
        ctx.assume(rw < re_)
        ctx.assume(rs < rn)
        region = (rw, re_, rs, rn)
        for p in range(npts):
            ctx.assume(stubs.in_block(ctx, e[p], n[p], region, shape, members[p]))
        red = _mean(ctx) if w is None else (npx.NP.average if ctx.sym else np.average)
        inner_uf = UFGridder(ident=3)
        inner = vd.Chain([("reduce", vd.BlockReduce(red, shape=shape, region=region)), ("uf3", inner_uf)])
        chain = vd.Chain([("inner", inner), ("uf", last)])
        chain.fit(coords, d, w)
        rec = fits_of(last)[0]
        ctx.claim("a chain used as a step filters like any gridder: the next step gets the coordinates and weights the chain was given", And(rec["coordinates"][0] is e, rec["coordinates"][1] is n, (rec["weights"] is None) if w is None else And([eq(a, b) for a, b in zip(np.ravel(rec["weights"]), w)])))
        ctx.claim("and the data minus the chain's prediction at the original points, in the data's shape", np.shape(rec["data"]) == (npts,))
        if np.shape(rec["data"]) == (npts,):
            for i in range(npts):
                ctx.claim("residual of a nested chain = data - sum of its predicting steps at the data points", eq(rec["data"][i], d[i] - P(3, 1, 0, e[i], n[i])))
        # the inner gridder itself was fitted on the block-reduced data
        irec = fits_of(inner_uf)[0]
        rc, rd = vd.BlockReduce(red, shape=shape, region=region).filter(coords, d, w)
        ctx.claim("inside the nested chain the gridder sees the reduced data", And(np.shape(irec["data"]) == np.shape(rd), And([eq(a, b) for a, b in zip(np.ravel(irec["data"]), np.ravel(rd))] + [True])))
        # direct Chain.filter
        gridders.reset()
        c2 = vd.Chain([("reduce", vd.BlockReduce(red, shape=shape, region=region)), ("uf3", UFGridder(ident=3))])
        out = c2.filter(coords, d, w)
        ctx.claim("Chain.filter returns the coordinates and weights it was given", And(len(out) == 3, out[0] is coords, out[2] is w))
        ctx.claim("Chain.filter returns data minus prediction in the data's shape", np.shape(out[1]) == (npts,))
        if np.shape(out[1]) == (npts,):
            for i in range(npts):
                ctx.claim("Chain.filter residual", eq(out[1][i], d[i] - P(3, 1, 0, e[i], n[i])))
        pred = chain.predict((qe, qn))
        for i in range(2):
            ctx.claim("prediction sums the predicting steps of nested chains", eq(pred[i], P(3, 1, 0, qe[i], qn[i]) + P(2, 1, 0, qe[i], qn[i])))
    elif kind in ("blockmean", "trend_reduce"):
        members = cfg["members"]
        shape = tuple(cfg["bshape"])
        rw, re_, rs, rn = ctx.real("W"), ctx.real("E"), ctx.real("S"), ctx.real("N")
        ctx.assume(rw < re_)
        ctx.assume(rs < rn)
        region = (rw, re_, rs, rn)
        for p in range(npts):
            ctx.assume(stubs.in_block(ctx, e[p], n[p], region, shape, members[p]))
        if kind == "blockmean":
            # BlockMean hands on three things: reduced coordinates, block means and the weights it derives
            mk = lambda: vd.BlockMean(shape=shape, region=region, uncertainty=True)
            chain = vd.Chain([("mean", mk()), ("uf", last)])
            chain.fit(coords, d, w)
            rec = fits_of(last)[0]
            rc, rd, rwts = mk().filter(coords, d, w)
            ok = len(rec["coordinates"]) == 2 and np.shape(rec["data"]) == np.shape(rd) and rec["weights"] is not None and np.shape(rec["weights"]) == np.shape(rwts)
            ctx.claim("step after a BlockMean is fitted on its reduced coordinates, block means and derived weights", ok)
            if ok:
                ctx.claim("block means handed on", And([eq(a, b) for a, b in zip(rec["data"], rd)]))
                ctx.claim("BlockMean's output weights (not the input weights, not None) handed on", And([eq(a, b) for a, b in zip(rec["weights"], rwts)]))
                ctx.claim("reduced coordinates handed on", And([eq(a, b) for k in range(2) for a, b in zip(rec["coordinates"][k], rc[k])]))
        else:
            # a reduction in the middle of a chain receives the residuals of the steps before it
            red = _mean(ctx)
            first = UFGridder(ident=1)
            chain = vd.Chain([("first", first), ("reduce", vd.BlockReduce(red, shape=shape, region=region)), ("uf", last)])
            chain.fit(coords, d, w)
            rec = fits_of(last)[0]
            resid = np.array([d[i] - P(1, 1, 0, e[i], n[i]) for i in range(npts)], dtype=object if ctx.sym else float)
            rc, rd = vd.BlockReduce(red, shape=shape, region=region).filter(coords, resid)
            ok = np.shape(rec["data"]) == np.shape(rd)
            ctx.claim("a reduction after a gridder reduces the residuals, and the next step is fitted on that", ok)
            if ok:
                ctx.claim("reduced residuals handed on", And([eq(a, b) for a, b in zip(rec["data"], rd)]))
                ctx.claim("reduced coordinates handed on", And([eq(a, b) for k in range(2) for a, b in zip(rec["coordinates"][k], rc[k])]))
            pred = chain.predict((qe, qn))
            for i in range(2):
                ctx.claim("prediction sums the predicting steps only", eq(pred[i], P(1, 1, 0, qe[i], qn[i]) + P(2, 1, 0, qe[i], qn[i])))
    elif kind == "vector":
        d2 = ctx.reals("dd", npts)
        v1 = vd.Vector([UFGridder(ident=1), UFGridder(ident=2)])
        v2c = [UFGridder(ident=3), UFGridder(ident=4)]
        chain = vd.Chain([("v1", v1), ("v2", vd.Vector(v2c))])
        w2 = None
        if w is not None:
            w2 = ctx.reals("ww", npts)
            for v in w2:
                ctx.assume(v > 0)
        chain.fit(coords, (d, d2), None if w is None else (w, w2))
        for k, src in enumerate((d, d2)):
            rec = fits_of(v2c[k])[0]
            if w is not None:
                ctx.claim("second vector's component i is weighted by component i's weights only", rec["weights"] is not None and And([eq(a, b) for a, b in zip(np.ravel(rec["weights"]), (w, w2)[k])]))
            for i in range(npts):
                ctx.claim("second vector's component i sees component i's residual only", eq(rec["data"][i], src[i] - P(k + 1, 1, 0, e[i], n[i])))
        pred = chain.predict((qe, qn))
        ctx.claim("two components predicted", isinstance(pred, tuple) and len(pred) == 2)
        for k in range(2):
            for i in range(2):
                ctx.claim("component-wise sum of the vector steps", eq(pred[k][i], P(k + 1, 1, 0, qe[i], qn[i]) + P(k + 3, 1, 0, qe[i], qn[i])))


def _cfg_chain(tier, seed):
    q = [
        {"nsteps": 2, "shape": (2, 2), "rounds": 2},
        {"nsteps": 3, "shape": (3,), "weighted": True, "ncomp": 2},
        {"nsteps": 1, "shape": (2,)},
        {"nsteps": 3, "shape": (2,), "same_names": True},
    ]
    if tier == "quick":
        return q
    return q + [{"nsteps": 4, "shape": (2, 2), "weighted": True, "rounds": 2}, {"nsteps": 4, "shape": (3,), "ncomp": 3}, {"nsteps": 2, "shape": (1, 3), "ncomp": 2, "weighted": True, "rounds": 2}, {"nsteps": 4, "shape": (2, 3), "ncomp": 3, "weighted": True, "rounds": 2}, {"nsteps": 3, "shape": (4,), "ncomp": 2, "rounds": 2}]


def _cfg_mixed(tier, seed):
    out = [
        {"kind": "trend", "weighted": True},
        {"kind": "trend", "weighted": False},
        {"kind": "reduce", "members": [1, 0, 1, 0], "bshape": (1, 2), "weighted": False},
        {"kind": "reduce", "members": [1, 0, 1, 1], "bshape": (1, 2), "weighted": True},
        {"kind": "nested", "weighted": False},
        {"kind": "vector", "weighted": True},
        {"kind": "nested_reduce", "members": [1, 0, 1, 0], "bshape": (1, 2), "weighted": True},
        {"kind": "nested_reduce", "members": [0, 0, 1, 0], "bshape": (1, 2), "weighted": False},
        {"kind": "blockmean", "members": [1, 0, 1], "bshape": (1, 2), "weighted": True, "npts": 3},
        {"kind": "trend_reduce", "members": [1, 0, 1, 0], "bshape": (1, 2), "weighted": False},
        {"kind": "nested", "weighted": True, "npts": 3, "ncomp": 2, "refit": True},
    ]
    if tier == "thorough":
        out += [{"kind": "reduce", "members": [3, 0, 3, 2, 0], "bshape": (2, 2), "npts": 5, "weighted": False}, {"kind": "nested", "weighted": True, "npts": 3}]
    return out


HARNESSES = [
    Harness("chain_of_gridders", h_chain_uf, _cfg_chain, bounds="1-4 steps, 1-3 data components, weights or none, inputs of shape (2,2)/(3,)/(1,3), two successive fits on different symbolic datasets, symbolic query points"),
    Harness("filter", h_filter, lambda tier, seed: [{"shape": (2, 2), "ncomp": 1}, {"shape": (3,), "ncomp": 2, "weighted": True}, {"shape": (2,), "ncomp": 2, "int_data": True}], bounds="symbolic coordinates (+ ignored extra), data with 1-2 components (real, or integers carried by an int64 dtype), weights or none"),
    Harness("vector", h_vector, lambda tier, seed: [{"shape": (3,), "ncomp": 2, "weighted": True}, {"shape": (2, 2), "ncomp": 3}], bounds="2-3 components with distinct symbolic data and weights; shapes (3,), (2,2)"),
    Harness("chain_mixed", h_chain_mixed, _cfg_mixed, bounds="Trend(1) / BlockReduce (first or mid-chain) / BlockMean / nested Chain (1-2 components, after an earlier fit on other data) / Vector (distinct weights per component) steps followed by a recording gridder; 3-5 symbolic points", stubs=["sklearn StandardScaler/LinearRegression/Ridge -> normal-equation contract", "block_split -> C08 contract"], extra_globals=_globals, engine={"oneshot": True}),
]
