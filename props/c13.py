"""C13 Regions, bounds and point-in-region tests are tight and consistent.

Real functions executed: verde.coordinates.check_region, get_region, pad_region,
inside, scatter_points, grid_coordinates; verde.projections.project_region;
verde.utils.maxabs."""
from fractions import Fraction

import numpy as np
import z3

import verde as vd
from verde import coordinates as vc
from verde import projections as vp
from verde import utils as vu

from symx import npx, stubs
from symx import engine as E
from symx.engine import And, Or, Not, Implies, eq, le, lt, ge, gt, iff, smin, smax, sabs, SymBool, CBool
from symx.harness import Harness
from symx.symfp import SymFP

ASSUMPTIONS = [
    "exact real arithmetic for every harness except inside_fp64, which is bit-precise IEEE-754 binary64 (z3 FPSort(11,53))",
    "np.min/np.max/np.nanmin/np.nanmax on symbolic arrays are merged If-terms (numpy contract model)",
    "RandomState.uniform(lo, hi, n) = lo + (hi-lo)*u, u in [0,1) determined by (seed, call, index)",
]


def _coords(ctx, shape):
    return ctx.reals("e", shape), ctx.reals("n", shape)


def h_get_region(ctx):
    shape = tuple(ctx.cfg["shape"])
    e, n = _coords(ctx, shape)
    extra = ctx.reals("x", shape)
    region = vc.get_region((e, n, extra))
    ctx.claim("four bounds", len(region) == 4)
    w, ee, s, nn = region
    for v in e.ravel():
        ctx.claim("W <= every easting <= E", And(le(w, v), le(v, ee)))
    for v in n.ravel():
        ctx.claim("S <= every northing <= N", And(le(s, v), le(v, nn)))
    ctx.claim("W is attained", Or([eq(w, v) for v in e.ravel()]))
    ctx.claim("E is attained", Or([eq(ee, v) for v in e.ravel()]))
    ctx.claim("S is attained", Or([eq(s, v) for v in n.ravel()]))
    ctx.claim("N is attained", Or([eq(nn, v) for v in n.ravel()]))
    ins = vc.inside((e, n), region)
    ctx.claim("inside() keeps the input shape", ins.shape == shape)
    for v in ins.ravel():
        ctx.claim("every point is inside its own bounding region", iff(v, True))


def _set_merge(ctx):
    npx.NP.merge_compare = bool(ctx.sym)


def h_inside(ctx):
    shape = tuple(ctx.cfg["shape"])
    e, n = _coords(ctx, shape)
    if ctx.cfg.get("mem"):
        from symx.harness import relayout

        e, n = relayout(e, ctx.cfg["mem"]), relayout(n, "C")
    w, ee, s, nn = ctx.real("W"), ctx.real("E"), ctx.real("S"), ctx.real("N")
    _set_merge(ctx)
    try:
        try:
            r = vc.inside((e, n), (w, ee, s, nn))
        except ValueError:
            ctx.claim("inside rejects only invalid regions", Or(gt(w, ee), gt(s, nn)))
            return
    finally:
        npx.NP.merge_compare = False
    ctx.claim("valid region accepted", And(le(w, ee), le(s, nn)))
    ctx.claim("result has the input's shape", r.shape == shape)
    for idx in np.ndindex(*shape):
        exp = And(le(w, e[idx]), le(e[idx], ee), le(s, n[idx]), le(n[idx], nn))
        ctx.claim("inside[idx] <=> W<=e<=E and S<=n<=N", iff(r[idx], exp))


def h_inside_twice(ctx):
    "two calls on the same points with two regions: the first result is still the first region's predicate afterwards"
    shape = tuple(ctx.cfg["shape"])
    e, n = _coords(ctx, shape)
    w, ee, s, nn = ctx.real("W"), ctx.real("E"), ctx.real("S"), ctx.real("N")
    w2, ee2, s2, nn2 = ctx.real("W2"), ctx.real("E2"), ctx.real("S2"), ctx.real("N2")
    ctx.assume(w <= ee)
    ctx.assume(s <= nn)
    ctx.assume(w2 <= ee2)
    ctx.assume(s2 <= nn2)
    _set_merge(ctx)
    try:
        r1 = vc.inside((e, n), (w, ee, s, nn))
        r2 = vc.inside((e, n), (w2, ee2, s2, nn2))
        r3 = vc.inside((e, n), (w, ee, s, nn))
    finally:
        npx.NP.merge_compare = False
    for idx in np.ndindex(*shape):
        exp1 = And(le(w, e[idx]), le(e[idx], ee), le(s, n[idx]), le(n[idx], nn))
        exp2 = And(le(w2, e[idx]), le(e[idx], ee2), le(s2, n[idx]), le(n[idx], nn2))
        ctx.claim("after a later call with another region the earlier result is still its own region's predicate", iff(r1[idx], exp1))
        ctx.claim("second call: inside[idx] <=> predicate of the second region", iff(r2[idx], exp2))
        ctx.claim("third call (first region again): same predicate, while the second result is unchanged", And(iff(r3[idx], exp1), iff(r2[idx], exp2)))


def _fb(c):
    return c


def fle(a, b):
    "IEEE <= : exact in both modes"
    if isinstance(a, SymFP) or isinstance(b, SymFP):
        return a <= b
    return CBool(bool(a <= b))


def fgt(a, b):
    if isinstance(a, SymFP) or isinstance(b, SymFP):
        return a > b
    return CBool(bool(a > b))


def h_inside_fp(ctx):
    npts = ctx.cfg["npts"]
    e = ctx.fps("e", npts)
    n = ctx.fps("n", npts)
    w, ee, s, nn = ctx.fp("W"), ctx.fp("E"), ctx.fp("S"), ctx.fp("N")
    _set_merge(ctx)
    try:
        try:
            r = vc.inside((e, n), (w, ee, s, nn))
        except ValueError:
            ctx.claim("fp64: inside rejects only invalid regions", Or(fgt(w, ee), fgt(s, nn)))
            return
    finally:
        npx.NP.merge_compare = False
    ctx.claim("fp64: regions with W>E or S>N are rejected", Not(Or(fgt(w, ee), fgt(s, nn))))
    ctx.claim("fp64: shape kept", r.shape == (npts,))
    for i in range(npts):
        exp = And(fle(w, e[i]), fle(e[i], ee), fle(s, n[i]), fle(n[i], nn))
        ctx.claim("fp64: inside[i] <=> closed-box predicate on doubles (NaN is outside)", iff(r[i], exp))


def h_inside_int(ctx):
    "integer-dtype coordinates against a real-valued region: still the exact closed-box predicate"
    npts = ctx.cfg["npts"]
    ei = ctx.ints("e", npts, -20, 20)
    ni = ctx.ints("n", npts, -20, 20)
    if ctx.sym:
        e, n = npx.SymArray(ei, "int64"), npx.SymArray(ni, "int64")
    else:
        e, n = np.asarray(ei, dtype=np.int64), np.asarray(ni, dtype=np.int64)
    w, ee, s, nn = ctx.real("W"), ctx.real("E"), ctx.real("S"), ctx.real("N")
    ctx.assume(w <= ee)
    ctx.assume(s <= nn)
    r = vc.inside((e, n), (w, ee, s, nn))
    ctx.claim("result has the input's shape", np.shape(r) == (npts,))
    for i in range(npts):
        exp = And(le(w, ei[i]), le(ei[i], ee), le(s, ni[i]), le(ni[i], nn))
        ctx.claim("integer-dtype coordinates: inside[i] <=> W<=e<=E and S<=n<=N with the region's real bounds", iff(bool(r[i]), exp))


def h_check_region(ctx):
    w, ee, s, nn = ctx.real("W"), ctx.real("E"), ctx.real("S"), ctx.real("N")
    try:
        vc.check_region((w, ee, s, nn))
        ctx.claim("accepted regions have W<=E and S<=N", And(le(w, ee), le(s, nn)))
    except ValueError:
        ctx.claim("rejected regions have W>E or S>N", Or(gt(w, ee), gt(s, nn)))
    for bad in ((w, ee, s), (w, ee, s, nn, nn), ()):
        try:
            vc.check_region(bad)
            ctx.claim("wrong length rejected", False)
        except ValueError:
            ctx.claim("wrong length rejected", True)


def h_pad_region(ctx):
    w, ee, s, nn = ctx.real("W"), ctx.real("E"), ctx.real("S"), ctx.real("N")
    if ctx.cfg["pair"]:
        pn, pe = ctx.real("pad_n"), ctx.real("pad_e")
        pad = (pn, pe)
        neg = (-pn, -pe)
    else:
        pn = pe = ctx.real("pad")
        pad = pn
        neg = -pn
    out = vc.pad_region((w, ee, s, nn), pad)
    ctx.claim("four bounds", len(out) == 4)
    ctx.claim("W moves west by the east pad", eq(out[0], w - pe))
    ctx.claim("E moves east by the east pad", eq(out[1], ee + pe))
    ctx.claim("S moves south by the north pad", eq(out[2], s - pn))
    ctx.claim("N moves north by the north pad", eq(out[3], nn + pn))
    back = vc.pad_region(out, neg)
    for a, b in zip(back, (w, ee, s, nn)):
        ctx.claim("the opposite pad undoes the pad", eq(a, b))


def _scatter_globals(cfg):
    return {("verde.coordinates", "check_random_state"): stubs.stub_check_random_state}


def h_scatter(ctx):
    cfg = ctx.cfg
    w, ee, s, nn = ctx.real("W"), ctx.real("E"), ctx.real("S"), ctx.real("N")
    ctx.assume(w <= ee)
    ctx.assume(s <= nn)
    size = cfg["size"]
    kw = {}
    if cfg.get("extra"):
        x = ctx.real("extra")
        kw["extra_coords"] = [x, ctx.real("extra_b")] if cfg["extra"] == 2 else x
    seed = cfg["seed"]
    c1 = vc.scatter_points((w, ee, s, nn), size, random_state=seed, **kw)
    c2 = vc.scatter_points((w, ee, s, nn), size, random_state=seed, **kw)
    ctx.claim("easting, northing (+ extra) arrays of the requested size", And(len(c1) == 2 + (cfg.get("extra") or 0), all(np.shape(c) == (size,) for c in c1)))
    for i in range(size):
        ctx.claim("scatter point inside the region (easting)", And(le(w, c1[0][i]), le(c1[0][i], ee)))
        ctx.claim("scatter point inside the region (northing)", And(le(s, c1[1][i]), le(c1[1][i], nn)))
        ctx.claim("same seed gives the same points", And(eq(c1[0][i], c2[0][i]), eq(c1[1][i], c2[1][i])))
    ins = vc.inside(c1, (w, ee, s, nn))
    for v in ins.ravel():
        ctx.claim("inside() agrees that scatter points are in the region", iff(v, True))
    if cfg.get("extra"):
        for v in c1[2]:
            ctx.claim("extra coordinate constant", eq(v, x))
        if cfg["extra"] == 2 and len(c1) == 4:
            for v in c1[3]:
                ctx.claim("second extra coordinate constant, in the order given", eq(v, kw["extra_coords"][1]))
    for label, bad in (("W > E", (ee + 1, ee, s, nn)), ("S > N", (w, ee, nn + 1, nn)), ("three entries", (w, ee, s)), ("five entries", (w, ee, s, nn, nn))):
        try:
            vc.scatter_points(bad, size, random_state=seed)
            ctx.claim("invalid region rejected by scatter_points: %s" % label, False)
        except ValueError:
            ctx.claim("invalid region rejected by scatter_points: %s" % label, True)


def h_grid_inside(ctx):
    cfg = ctx.cfg
    w, ee, s, nn = ctx.real("W"), ctx.real("E"), ctx.real("S"), ctx.real("N")
    ctx.assume(w <= ee)
    ctx.assume(s <= nn)
    if cfg["mode"] == "shape":
        east, north = vc.grid_coordinates((w, ee, s, nn), shape=tuple(cfg["shape"]), pixel_register=cfg["pixel"])
        reg = (w, ee, s, nn)
    else:
        sp = ctx.real("spacing")
        ctx.assume(sp > 0)
        ctx.assume(ee - w <= sp * Fraction(cfg["maxq"]))
        ctx.assume(nn - s <= sp * Fraction(cfg["maxq"]))
        east, north = vc.grid_coordinates((w, ee, s, nn), spacing=sp, adjust=cfg["mode"], pixel_register=cfg["pixel"])
        if cfg["mode"] == "spacing":
            reg = (w, ee, s, nn)
        else:
            ne = east.shape[1] - (0 if cfg["pixel"] else 1)
            nr = east.shape[0] - (0 if cfg["pixel"] else 1)
            reg = (w, w + ne * sp, s, s + nr * sp)
    for a, b in zip(east.ravel(), north.ravel()):
        ctx.claim("grid node lies in the closed region", And(le(reg[0], a), le(a, reg[1]), le(reg[2], b), le(b, reg[3])))
    if cfg["mode"] != "region":
        ins = vc.inside((east, north), reg)
        ctx.claim("inside() keeps the grid shape", ins.shape == east.shape)
        for v in ins.ravel():
            ctx.claim("inside() agrees that grid nodes are in the region", iff(v, True))


def _proj_globals_factory(n):
    def f():
        real_gc = vc.grid_coordinates

        def gc(region, shape=None, **kw):
            if shape == (101, 101) and n != 101:
                shape = (n, n)
            return real_gc(region, shape=shape, **kw)

        return {("verde.projections", "grid_coordinates"): gc}

    return f


def h_project_region(ctx):
    cfg = ctx.cfg
    a, c = Fraction(cfg["a"]), Fraction(cfg["c"])
    b, d = ctx.real("b"), ctx.real("d")
    w, ee, s, nn = ctx.real("W"), ctx.real("E"), ctx.real("S"), ctx.real("N")
    ctx.assume(w <= ee)
    ctx.assume(s <= nn)
    fa, fc = (float(a), float(c)) if not ctx.sym else (a, c)

    def projection(e, n):
        return e * fa + b, n * fc + d

    if cfg["n"] != 101:
        # reduced sampling (a stated bound), in the symbolic run and in the replay alike
        real_gc = vp.grid_coordinates
        vp.grid_coordinates = _proj_globals_factory(cfg["n"])()[("verde.projections", "grid_coordinates")]
        try:
            out = vp.project_region((w, ee, s, nn), projection)
        finally:
            vp.grid_coordinates = real_gc
    else:
        out = vp.project_region((w, ee, s, nn), projection)
    corners_e = [w * fa + b, ee * fa + b]
    corners_n = [s * fc + d, nn * fc + d]
    ctx.claim("projected W = min of projected corners", eq(out[0], smin(corners_e)))
    ctx.claim("projected E = max of projected corners", eq(out[1], smax(corners_e)))
    ctx.claim("projected S = min of projected corners", eq(out[2], smin(corners_n)))
    ctx.claim("projected N = max of projected corners", eq(out[3], smax(corners_n)))
    ctx.claim("projected region is a valid region", And(le(out[0], out[1]), le(out[2], out[3])))


def h_project_region_any(ctx):
    """arbitrary projection (a pair of uninterpreted functions, hence possibly non-monotone and
    non-separable): the result is the bounding box of the projected sample nodes - all of them"""
    cfg = ctx.cfg
    nn = cfg["n"]
    w, ee, s, no = ctx.real("W"), ctx.real("E"), ctx.real("S"), ctx.real("N")
    ctx.assume(w <= ee)
    ctx.assume(s <= no)
    seen = {}

    if ctx.sym:
        PE = z3.Function("projE", z3.RealSort(), z3.RealSort(), z3.RealSort())
        PN = z3.Function("projN", z3.RealSort(), z3.RealSort(), z3.RealSort())

        def one(x, y):
            return E.SymReal(PE(E.T(x), E.T(y))), E.SymReal(PN(E.T(x), E.T(y)))
    else:
        import math

        def one(x, y):
            # interior extrema in both outputs
            return math.hypot(x - 0.3, y + 0.2) + 0.1 * x, math.sin(1.3 * x) * (y - 0.1) ** 2 - 0.05 * y

    def projection(east, north):
        east, north = np.asarray(east), np.asarray(north)
        oe = np.empty(east.shape, dtype=object if ctx.sym else float)
        on = np.empty(east.shape, dtype=object if ctx.sym else float)
        for idx in np.ndindex(*east.shape):
            oe[idx], on[idx] = one(east[idx], north[idx])
            seen[idx] = (oe[idx], on[idx])
        return (oe.view(npx.MinMaxArray), on.view(npx.MinMaxArray)) if ctx.sym else (oe, on)

    real_gc = vp.grid_coordinates
    if nn != 101:
        vp.grid_coordinates = _proj_globals_factory(nn)()[("verde.projections", "grid_coordinates")]
    try:
        out = vp.project_region((w, ee, s, no), projection)
    finally:
        vp.grid_coordinates = real_gc
    ctx.claim("the projection is evaluated on every node of the sampling grid", len(seen) == nn * nn)
    # independent recomputation on the node grid
    ge_, gn_ = vc.grid_coordinates((w, ee, s, no), shape=(nn, nn))
    pe, pn = [], []
    for a, b in zip(ge_.ravel(), gn_.ravel()):
        x, y = one(a, b)
        pe.append(x)
        pn.append(y)
    ctx.claim("projected W/E = min/max over all projected sample nodes, interior ones included", And(eq(out[0], smin(pe)), eq(out[1], smax(pe))))
    ctx.claim("projected S/N = min/max over all projected sample nodes, interior ones included", And(eq(out[2], smin(pn)), eq(out[3], smax(pn))))


def h_maxabs(ctx):
    shapes = ctx.cfg["shapes"]
    arrays = [ctx.reals("a%d" % i, tuple(sh)) for i, sh in enumerate(shapes)]
    allv = [v for a in arrays for v in a.ravel()]
    for nan in (True, False):
        r = vu.maxabs(*arrays, nan=nan)
        for v in allv:
            ctx.claim("maxabs bounds every |x|", ge(r, sabs(v)))
        ctx.claim("maxabs is attained", Or([eq(r, sabs(v)) for v in allv]))
    sc = ctx.real("scalar")
    r = vu.maxabs(sc, *arrays)
    ctx.claim("maxabs accepts scalars", And(ge(r, sabs(sc)), Or([eq(r, sabs(v)) for v in allv + [sc]])))


def _cfg_shapes(tier, seed):
    return [{"shape": s} for s in ([(2,), (1, 2), (2, 2), (1, 2, 1)] if tier == "quick" else [(1,), (2,), (3,), (1, 2), (2, 1), (2, 2), (2, 3), (1, 2, 1), (2, 1, 2)])]


def _cfg_grid_inside(tier, seed):
    out = []
    for pixel in (False, True):
        for sh in ([(1, 1), (2, 3)] if tier == "quick" else [(1, 1), (1, 3), (2, 3), (3, 2), (4, 4)]):
            out.append({"mode": "shape", "shape": sh, "pixel": pixel})
        for mode in ("spacing", "region"):
            out.append({"mode": mode, "pixel": pixel, "maxq": "5/2" if tier == "quick" else "7/2"})
    return out


def _cfg_proj(tier, seed):
    slopes = [("1", "1"), ("3", "1/2"), ("-2", "5"), ("7/4", "-1")]
    if tier == "quick":
        return [{"a": a, "c": c, "n": 3} for a, c in slopes]
    return [{"a": a, "c": c, "n": n} for a, c in slopes + [("-1", "-1/3"), ("1000", "1/1000")] for n in (3, 11)] + [{"a": "3", "c": "-1/2", "n": 101}]


HARNESSES = [
    Harness("get_region", h_get_region, _cfg_shapes, bounds="coordinate arrays (plus an ignored extra coordinate) of shapes up to (2,2) quick / (2,3) thorough, all entries symbolic reals"),
    Harness("inside", h_inside, lambda tier, seed: _cfg_shapes(tier, seed) + [{"shape": (2, 2), "mem": "F"}], bounds="symbolic region (valid or not) and coordinate arrays up to 2x2 / 2x3", stubs=["np.greater_equal/less_equal/logical_and merged into terms instead of forking"]),
    Harness("inside_twice", h_inside_twice, {"quick": [{"shape": (2,)}, {"shape": (1, 2)}]}, bounds="two symbolic valid regions, the same 2 symbolic points (1-D and 2-D), three calls in sequence", stubs=["np.greater_equal/less_equal/logical_and merged into terms instead of forking"]),
    Harness(
        "inside_fp64",
        h_inside_fp,
        lambda tier, seed: [{"npts": 1}] + ([{"npts": 2}] if tier == "thorough" else []),
        bounds="all binary64 values for region and 1 (quick) / 2 (thorough) points incl. NaN, +-inf, +-0",
        stubs=["np.greater_equal/less_equal/logical_and merged into terms instead of forking"],
        engine={"no_crosscheck": True},
    ),
    Harness("inside_int_dtype", h_inside_int, lambda tier, seed: [{"npts": 1}] + ([{"npts": 2}] if tier == "thorough" else []), bounds="1-2 points with symbolic integer coordinates carried by a modelled int64 dtype (real int64 arrays in the replay); symbolic real region", stubs=["numpy dtype model: np.asarray(x, dtype=<int>) truncates (OUT-DTYPE)"], outside="float32 and other non-float64 floating dtypes"),
    Harness("check_region", h_check_region, {"quick": [{}]}, bounds="symbolic 4-tuples; lengths 0, 3, 5"),
    Harness("pad_region", h_pad_region, {"quick": [{"pair": False}, {"pair": True}]}, bounds="symbolic region and pads of either sign"),
    Harness(
        "scatter_points",
        h_scatter,
        lambda tier, seed: [{"size": n, "seed": sd, "extra": x} for n, sd, x in ([(2, 0, 0), (3, 7, 1), (2, 5, 2)] if tier == "quick" else [(1, 0, 0), (2, 0, 0), (3, 7, 1), (5, seed, 0), (4, 123, 1), (2, 5, 2)])],
        bounds="symbolic valid region, 1..5 points, RNG draws symbolic in [0,1)",
        extra_globals=_scatter_globals,
        stubs=["check_random_state -> StubRandomState (uniform contract)"],
    ),
    Harness("grid_inside", h_grid_inside, _cfg_grid_inside, bounds="symbolic region; shapes up to 2x3 / 4x4; spacing with extent/spacing <= 2.5 / 3.5"),
    Harness(
        "project_region",
        h_project_region,
        _cfg_proj,
        bounds="separable affine projections with concrete slopes (both signs) and symbolic offsets; symbolic valid region; the 101x101 sampling reduced to 3x3 (quick) / 11x11 and one full 101x101 (thorough)",
        outside="non-monotone projections (the sampling is then approximate by design)",
        timeout_s=900,
    ),
    Harness(
        "project_region_any_projection",
        h_project_region_any,
        lambda tier, seed: [{"n": 3}] + ([{"n": 5}, {"n": 11}] if tier == "thorough" else []),
        bounds="arbitrary projection as a pair of uninterpreted functions of (easting, northing); symbolic valid region; sampling reduced to 3x3 (quick) / 5x5, 11x11 (thorough)",
        stubs=["ndarray.min/max of the projected arrays merged into If-terms"],
        outside="that 101x101 samples approximate the true bounding box of a non-monotone projection (by design an approximation)",
        engine={"oneshot": True},
    ),
    Harness("maxabs", h_maxabs, {"quick": [{"shapes": [(2,), (1, 2)]}], "thorough": [{"shapes": [(2,), (1, 2)]}, {"shapes": [(3,)]}, {"shapes": [(2, 2), (1,), (2,)]}]}, bounds="1-3 arrays of up to 4 symbolic entries plus a scalar"),
]

