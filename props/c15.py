"""C15 Nearest-neighbour based results agree with brute-force distances.

Real functions executed: verde.neighbors.KNeighbors.fit / predict,
verde.distances.median_distance, verde.mask.distance_mask, _get_grid_coordinates,
verde.utils.kdtree, n_1d_arrays; real xarray Dataset.where. cKDTree is replaced
by its contract, which *is* the brute-force definition (k nearest in Euclidean
distance, ascending, ties free)."""
import itertools
from fractions import Fraction

import numpy as np
import xarray as xr

import verde as vd

from symx import stubs, npx
from symx import engine as E
from symx.engine import And, Or, Not, Implies, eq, le, lt, ge, gt, iff, CBool
from symx.harness import Harness

ASSUMPTIONS = [
    "cKDTree.query(X, k) returns the k nearest points in Euclidean distance in ascending order (OUT-LIB; the witness replays run the real cKDTree)",
    "general position: queries equidistant from two data points (ties) are excluded, as in the property",
    "distances are compared through their squares; a square-root symbol (with r >= 0, r^2 = d^2) is created only where a distance is used arithmetically",
]

LAYOUTS = {
    "a4": [(0.0, 0.0), (2.0, 0.5), (0.3, 1.7), (1.5, 2.5)],
    "b5": [(-3.0, 2.0), (5.0, 1.0), (1.0, -4.0), (2.0, 6.0), (0.5, 0.25)],
    "c3": [(10.0, 10.0), (11.0, 10.5), (10.25, 12.0)],
}


def _globals(cfg):
    return stubs.kdtree_globals()


def _reduction(ctx, name):
    NP = npx.NP
    if ctx.sym:
        return {"mean": np.mean, "median": NP.median, "min": NP.min, "max": NP.max}[name]
    return {"mean": np.mean, "median": np.median, "min": np.min, "max": np.max}[name]


def _reduce_expected(name, vals):
    from props.c09 import is_median

    vals = list(vals)
    if name == "mean":
        return lambda got: eq(got, sum(vals) / len(vals))
    if name == "median":
        return lambda got: is_median(got, vals)
    if name == "min":
        return lambda got: And(Or([eq(got, v) for v in vals]), And([le(got, v) for v in vals]))
    return lambda got: And(Or([eq(got, v) for v in vals]), And([ge(got, v) for v in vals]))


def _x(ctx, v):
    "exact rational value of a concrete double in the symbolic run (the stubs compute in exact arithmetic)"
    if ctx.sym and isinstance(v, (float, np.floating)):
        return Fraction(float(v))
    return v


def _ex(ctx, arr):
    """symbolic run: concrete doubles enter the projection as the exact rationals they are, so that the projected
    coordinates are exact too (float * Fraction would round, and a one-ulp difference shows up as an unreproducible
    tie between the code's distance and the oracle's)"""
    if not ctx.sym:
        return arr
    a = np.asarray(arr)
    if a.dtype == object:
        return arr
    out = np.empty(a.shape, dtype=object)
    for idx in np.ndindex(*a.shape):
        out[idx] = Fraction(float(a[idx]))
    return out


def _general_position(ctx, qe, qn, pts, scale=(1, 1)):
    d2 = [((qe - _x(ctx, p[0])) * scale[0]) ** 2 + ((qn - _x(ctx, p[1])) * scale[1]) ** 2 for p in pts]
    for i in range(len(pts)):
        for j in range(i + 1, len(pts)):
            ctx.assume(Not(eq(d2[i], d2[j])) if ctx.sym else bool(abs(d2[i] - d2[j]) > 1e-7 * (1 + abs(d2[i]))))
    return d2


def h_kneighbors(ctx):
    cfg = ctx.cfg
    pts = LAYOUTS[cfg["layout"]]
    npts = len(pts)
    k = cfg["k"]
    red = cfg["reduction"]
    e = np.array([p[0] for p in pts])
    n = np.array([p[1] for p in pts])
    d = ctx.reals("d", npts)
    qsh = tuple(cfg["qshape"])
    qe, qn = ctx.reals("qe", qsh), ctx.reals("qn", qsh)
    ctor = cfg.get("ctor")
    if ctor == "default":  # documented defaults: k=1, mean
        kn = vd.KNeighbors()
    elif ctor == "k_only":
        kn = vd.KNeighbors(k=k)
    else:
        kn = vd.KNeighbors(k=k, reduction=_reduction(ctx, red))
    extra = cfg.get("extra")
    if extra:  # a third (vertical) coordinate is documented as ignored
        kn.fit((e, n, ctx.reals("up", npts)), d)
    elif cfg.get("dshape"):
        dsh = tuple(cfg["dshape"])
        d2 = d.reshape(dsh)
        d2 = np.asfortranarray(d2) if cfg.get("layout_mem") == "F" else np.ascontiguousarray(d2.T).T
        kn.fit((e.reshape(dsh), n.reshape(dsh)), d2)
    else:
        kn.fit((e, n), d)
    d2s = {}
    for idx in np.ndindex(*qsh):
        d2s[idx] = _general_position(ctx, qe[idx], qn[idx], pts)
    pred = kn.predict((qe, qn, ctx.reals("qup", qsh))) if extra else kn.predict((qe, qn))
    ctx.claim("prediction has the shape of the query arrays", np.shape(pred) == qsh)
    if np.shape(pred) != qsh:
        return
    for idx in np.ndindex(*qsh):
        d2 = d2s[idx]
        cases = []
        for S in itertools.combinations(range(npts), k):
            rest = [j for j in range(npts) if j not in S]
            closest = And([le(d2[i], d2[j]) for i in S for j in rest] + [True])
            cases.append(And(closest, _reduce_expected(red, [d[i] for i in S])(pred[idx])))
        ctx.claim("prediction = reduction of the data values of exactly the k closest data points (brute force over all k-subsets)", Or(cases))


def _sq_median_claim(med, sqs):
    "med is the median of the square roots of the squared distances sqs (k odd: middle; k even: mean of the two middle)"
    k = len(sqs)
    cases = []
    if k % 2:
        h = k // 2
        for i in range(k):
            others = [sqs[j] for j in range(k) if j != i]
            for lo in itertools.combinations(range(k - 1), h):
                cond = And([le(others[j], sqs[i]) for j in lo] + [ge(others[j], sqs[i]) for j in range(k - 1) if j not in lo] + [True])
                cases.append(And(cond, ge(med, 0), eq(med * med, sqs[i])))
        return Or(cases)
    h = k // 2 - 1
    for i in range(k):
        for j in range(k):
            if i == j:
                continue
            rest = [m for m in range(k) if m not in (i, j)]
            for lo in itertools.combinations(range(len(rest)), h):
                cond = And([le(sqs[i], sqs[j])] + [le(sqs[rest[m]], sqs[i]) for m in lo] + [ge(sqs[rest[m]], sqs[j]) for m in range(len(rest)) if m not in lo])
                t = med * med * 4 - sqs[i] - sqs[j]
                cases.append(And(cond, ge(med, 0), ge(t, 0), eq(t * t, sqs[i] * sqs[j] * 4)))
    return Or(cases)


def h_median_distance(ctx):
    cfg = ctx.cfg
    base = LAYOUTS[cfg["layout"]]
    npts = len(base)
    k = cfg["k"]
    # similarity family: p_i = o + s * c_i with symbolic scale s > 0 and offset o
    s = ctx.real("s")
    ctx.assume(s > 0)
    ox, oy = ctx.real("ox"), ctx.real("oy")
    sh = tuple(cfg.get("shape", (npts,)))
    e = np.array([ox + s * p[0] for p in base], dtype=object if ctx.sym else float).reshape(sh)
    n = np.array([oy + s * p[1] for p in base], dtype=object if ctx.sym else float).reshape(sh)
    kw = {}
    if cfg.get("proj"):
        a, c = Fraction(cfg["proj"][0]), Fraction(cfg["proj"][1])
        pb, pd = ctx.real("pb"), ctx.real("pd")
        if not ctx.sym:
            a, c = float(a), float(c)
        kw["projection"] = lambda x, y: (_ex(ctx, x) * a + pb, _ex(ctx, y) * c + pd)
        sc = (a, c)
    else:
        sc = (1, 1)
    coords = (e, n, ctx.reals("up", sh)) if cfg.get("extra") else (e, n)
    if cfg.get("default_k"):
        out = vd.median_distance(coords, **kw)
    else:
        out = vd.median_distance(coords, k_nearest=k, **kw)
    ctx.claim("result has the shape of the coordinate arrays", np.shape(out) == sh)
    if np.shape(out) != sh:
        return
    flat = np.ravel(out)
    for i in range(npts):
        sq = [((_x(ctx, base[i][0]) - _x(ctx, base[j][0])) * sc[0]) ** 2 + ((_x(ctx, base[i][1]) - _x(ctx, base[j][1])) * sc[1]) ** 2 for j in range(npts) if j != i]
        sq = sorted(sq)[:k]  # concrete layout: the k nearest *other* points are known; scale enters as s^2
        ctx.claim("median of the distances to the k nearest other points (self excluded)", _sq_median_claim(flat[i], [s * s * v for v in sq]))


def h_distance_mask(ctx):
    cfg = ctx.cfg
    pts = LAYOUTS[cfg["layout"]]
    npts = len(pts)
    e = np.array([p[0] for p in pts])
    n = np.array([p[1] for p in pts])
    maxdist = ctx.real("maxdist")
    qsh = tuple(cfg["qshape"])
    qe, qn = ctx.reals("qe", qsh), ctx.reals("qn", qsh)
    kw = {}
    sc = (1, 1)
    if cfg.get("proj"):
        a, c = Fraction(cfg["proj"][0]), Fraction(cfg["proj"][1])
        pb, pd = ctx.real("pb"), ctx.real("pd")
        if not ctx.sym:
            a, c = float(a), float(c)
        kw["projection"] = lambda x, y: (_ex(ctx, x) * a + pb, _ex(ctx, y) * c + pd)
        sc = (a, c)
    d2s = {idx: _general_position(ctx, qe[idx], qn[idx], pts, sc) for idx in np.ndindex(*qsh)}
    if cfg.get("extra"):  # extra (vertical) coordinates on either side are ignored
        mask = vd.distance_mask((e, n, ctx.reals("up", npts)), maxdist, coordinates=(qe, qn, ctx.reals("qup", qsh)), **kw)
    else:
        mask = vd.distance_mask((e, n), maxdist, coordinates=(qe, qn), **kw)
    ctx.claim("mask has the shape of the query arrays", np.shape(mask) == qsh)
    if np.shape(mask) != qsh:
        return
    for idx in np.ndindex(*qsh):
        near = And(ge(maxdist, 0), Or([le(v, maxdist * maxdist) for v in d2s[idx]]))
        ctx.claim("mask is True exactly where the nearest data point (both sets projected) is no farther than maxdist", iff(bool(mask[idx]), near))


def h_mask_grid(ctx):
    cfg = ctx.cfg
    pts = LAYOUTS[cfg["layout"]]
    e = np.array([p[0] for p in pts])
    n = np.array([p[1] for p in pts])
    maxdist = ctx.real("maxdist")
    ge_ = np.array(cfg["east"], dtype=float)
    gn = np.array(cfg["north"], dtype=float)
    vals = ctx.reals("v", (len(gn), len(ge_)))
    dims = tuple(cfg.get("dims", ("northing", "easting")))
    grid = xr.Dataset({"scalars": (dims, vals)}, coords={dims[1]: ge_, dims[0]: gn})
    kw = {}
    sc = (1, 1)
    if cfg.get("proj"):
        a, c = Fraction(cfg["proj"][0]), Fraction(cfg["proj"][1])
        if cfg.get("offsets"):  # concrete offsets: a wrong nearest point cannot hide behind a path split
            pb, pd = (Fraction(v) if ctx.sym else float(Fraction(v)) for v in cfg["offsets"])
        else:
            pb, pd = ctx.real("pb"), ctx.real("pd")
        if not ctx.sym:
            a, c = float(a), float(c)
        kw["projection"] = lambda x, y: (_ex(ctx, x) * a + pb, _ex(ctx, y) * c + pd)
        sc = (a, c)
    out = vd.distance_mask((e, n), maxdist, grid=grid, **kw)
    ee, nn = np.meshgrid(ge_, gn)
    arr = vd.distance_mask((e, n), maxdist, coordinates=(ee, nn), **kw)
    ctx.claim("grid form keeps dims and shape", And(tuple(out["scalars"].dims) == dims, out["scalars"].shape == (len(gn), len(ge_))))
    ov = out["scalars"].values
    for i in range(len(gn)):
        for j in range(len(ge_)):
            v = ov[i, j]
            isnan = (not E.is_sym(v)) and isinstance(v, (float, np.floating)) and v != v
            ctx.claim("grid form blanks exactly the cells where the array form on meshgrid(dims[1], dims[0]) is False", isnan == (not bool(arr[i, j])))
            if not isnan:
                ctx.claim("kept cells keep their value", eq(v, vals[i, j]))
            near = And(ge(maxdist, 0), Or([le(((_x(ctx, ge_[j]) - _x(ctx, p[0])) * sc[0]) ** 2 + ((_x(ctx, gn[i]) - _x(ctx, p[1])) * sc[1]) ** 2, maxdist * maxdist) for p in pts]))
            ctx.claim("cell (i, j) is judged at (easting[j], northing[i])", iff(bool(arr[i, j]), near))
    try:
        vd.distance_mask((e, n), maxdist, **kw)
        ctx.claim("neither coordinates nor grid rejected", False)
    except ValueError:
        ctx.claim("neither coordinates nor grid rejected", True)


def _cfg_kn(tier, seed):
    q = [
        {"layout": "a4", "k": 1, "reduction": "mean", "qshape": (1,)},
        {"layout": "a4", "k": 2, "reduction": "mean", "qshape": (1, 2)},
        {"layout": "a4", "k": 3, "reduction": "median", "qshape": (1,)},
        {"layout": "c3", "k": 2, "reduction": "min", "qshape": (2, 1)},
        {"layout": "a4", "k": 4, "reduction": "max", "qshape": (1,)},
        {"layout": "a4", "k": 1, "reduction": "mean", "qshape": (1,), "dshape": (2, 2), "layout_mem": "F"},
        {"layout": "c3", "k": 1, "reduction": "mean", "qshape": (1,), "ctor": "default"},
        {"layout": "c3", "k": 2, "reduction": "mean", "qshape": (1,), "ctor": "k_only", "extra": True},
    ]
    if tier == "quick":
        return q
    out = list(q)
    for lay in ("a4", "b5", "c3"):
        npts = len(LAYOUTS[lay])
        for k in range(1, npts + 1):
            for red in ("mean", "median", "min", "max"):
                out.append({"layout": lay, "k": k, "reduction": red, "qshape": (1,)})
    return out


HARNESSES = [
    Harness("kneighbors", h_kneighbors, _cfg_kn, bounds="concrete data layouts of 3-5 points, symbolic data values, symbolic query points in arrays of shape (1,), (1,2), (2,1); k from 1 to the number of points; reductions mean/median/min/max", stubs=["cKDTree -> k-nearest contract (brute-force definition)"], extra_globals=_globals, engine={"oneshot": True}, outside="ties; symbolic data coordinates; OUT-LIB", timeout_s=900),
    Harness(
        "median_distance",
        h_median_distance,
        lambda tier, seed: [{"layout": "a4", "k": 1}, {"layout": "a4", "k": 3, "shape": (2, 2)}, {"layout": "c3", "k": 1, "proj": ("2", "3")}, {"layout": "c3", "k": 2, "extra": True}, {"layout": "c3", "k": 1, "default_k": True}] + ([{"layout": "a4", "k": 2, "shape": (2, 2)}, {"layout": "b5", "k": 3}, {"layout": "c3", "k": 2}, {"layout": "a4", "k": 3, "proj": ("1/2", "-4")}] if tier == "thorough" else []),
        bounds="similarity family o + s*c_i of a concrete layout (symbolic scale s > 0 and offset o), k_nearest 1-4, 1-D and 2x2 arrays, affine projection",
        stubs=["cKDTree -> k-nearest contract"],
        extra_globals=_globals,
        engine={"oneshot": True, "timeout_ms": 60000},
        timeout_s=900,
    ),
    Harness(
        "distance_mask",
        h_distance_mask,
        lambda tier, seed: [{"layout": "a4", "qshape": (1,)}, {"layout": "c3", "qshape": (1, 2), "proj": ("2", "-3")}, {"layout": "c3", "qshape": (2, 1), "extra": True}] + ([{"layout": "b5", "qshape": (2, 1)}, {"layout": "b5", "qshape": (1,), "proj": ("1/2", "5")}, {"layout": "c3", "qshape": (2, 1), "proj": ("-1", "3")}] if tier == "thorough" else []),
        bounds="concrete data layout, symbolic query points (shapes (1,), (1,2), (2,1)) and maxdist (any sign), affine projection with symbolic offsets",
        stubs=["cKDTree -> nearest contract"],
        extra_globals=_globals,
        engine={"oneshot": True, "timeout_ms": 60000},
        timeout_s=900,
    ),
    Harness(
        "distance_mask_grid",
        h_mask_grid,
        lambda tier, seed: [{"layout": "a4", "east": [0.1, 1.2, 2.4], "north": [0.2, 2.2]}, {"layout": "c3", "east": [9.5, 11.5], "north": [9.0, 10.5, 12.5], "dims": ("lat", "lon"), "proj": ("2", "-1/2"), "offsets": ("7", "-5/2")}] + ([{"layout": "c3", "east": [9.5, 11.5], "north": [9.0, 10.5, 12.5], "dims": ("lat", "lon")}, {"layout": "a4", "east": [0.1, 1.2, 2.4], "north": [0.2, 2.2], "proj": ("-1", "3"), "offsets": ("-3", "1/2")}] if tier == "thorough" else []),
        bounds="concrete non-square grid (2x3 / 3x2) with symbolic values and default or custom dimension names, concrete data layout, symbolic maxdist, optional affine projection (symbolic offsets) applied to data and grid alike",
        stubs=["cKDTree -> nearest contract"],
        extra_globals=_globals,
        engine={"oneshot": True},
    ),
]
