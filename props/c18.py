"""C18 Grid <-> table conversions preserve every value at its own coordinates.

Real functions executed: verde.utils.make_xarray_grid, meshgrid_to_1d,
meshgrid_from_1d, check_meshgrid, get_ndim_horizontal_coords, grid_to_table;
verde.base.utils.check_data_names, check_extra_coords_names, check_coordinates;
real xarray Dataset/DataArray and pandas DataFrame on object arrays."""
import numpy as np
import xarray as xr

from verde import utils as vu
from verde.base import utils as vbu

from symx.engine import And, Or, Not, Implies, eq, le, lt, ge, gt, sabs
from symx.harness import Harness

ASSUMPTIONS = [
    "xarray and pandas run for real (layout and index alignment are the libraries' own)",
    "np.allclose modelled as |a-b| <= atol + rtol*|b|",
]
NAMES = ["alpha", "beta", "gamma", "delta"]
XNAMES = ["up", "time", "extra3"]


def _axes(ctx, shape):
    return ctx.reals("e", shape[1]), ctx.reals("n", shape[0])


def _cell_claims(ctx, ds, dims, e, n, datas, names, extras, xnames):
    shape = (len(n), len(e))
    ctx.claim("dataset dims are exactly the requested (northing, easting) names", set(ds.sizes.keys()) == set(dims) and ds.sizes[dims[0]] == shape[0] and ds.sizes[dims[1]] == shape[1])
    ctx.claim("data variables named and ordered as requested", list(ds.data_vars) == list(names))
    for name, d in zip(names, datas):
        ctx.claim("variable has dims (northing, easting)", tuple(ds[name].dims) == tuple(dims))
        if tuple(ds[name].dims) != tuple(dims):
            continue
        for i in range(shape[0]):
            for j in range(shape[1]):
                cell = ds[name].isel({dims[0]: i, dims[1]: j})
                ctx.claim("value sits at its source cell", eq(cell.values[()], d[i, j]))
                ctx.claim("cell carries the northing of its row", eq(cell.coords[dims[0]].values[()], n[i]))
                ctx.claim("cell carries the easting of its column", eq(cell.coords[dims[1]].values[()], e[j]))
                for xn, x in zip(xnames, extras):
                    ctx.claim("cell carries its extra coordinate", eq(cell.coords[xn].values[()], x[i, j]) if xn in cell.coords and np.shape(cell.coords[xn].values) == () else False)
    for xn, x in zip(xnames, extras):
        ctx.claim("extra coordinate present with dims (northing, easting)", xn in ds.coords and tuple(ds.coords[xn].dims) == tuple(dims))


def h_make_grid(ctx):
    cfg = ctx.cfg
    shape = tuple(cfg["shape"])
    dims = tuple(cfg.get("dims", ("northing", "easting")))
    e, n = _axes(ctx, shape)
    nv, nx = cfg["nvars"], cfg["nextra"]
    datas = [ctx.reals("d%d" % k, shape) for k in range(nv)]
    extras = [ctx.reals("x%d" % k, shape) for k in range(nx)]
    names = NAMES[:nv]
    xnames = XNAMES[:nx]
    if cfg["coords2d"]:
        ee, nn = np.meshgrid(e, n)
        coords = (ee, nn) + tuple(extras)
    else:
        coords = (e, n) + tuple(extras)
    if cfg.get("fortran"):
        # same logical contents, column-major memory
        datas_in = [np.asfortranarray(d) for d in datas]
        extras_in = [np.asfortranarray(x) for x in extras]
        coords = coords[:2] + tuple(extras_in)
    else:
        datas_in = datas
    data_arg = tuple(datas_in) if nv != 1 else datas_in[0]
    names_arg = names if nv != 1 else names[0]
    kw = {"extra_coords_names": (xnames if nx != 1 else xnames[0])} if nx else {}
    ds = vu.make_xarray_grid(coords, data_arg if nv else None, names_arg if nv else None, dims=dims, **kw)
    _cell_claims(ctx, ds, dims, e, n, datas, names, extras, xnames)
    if nv:
        table = vu.grid_to_table(ds)
        _table_claims(ctx, table, dims, e, n, datas, names, extras, xnames)


def _table_claims(ctx, table, dims, e, n, datas, names, extras, xnames):
    shape = (len(n), len(e))
    ctx.claim("one row per cell", len(table) == shape[0] * shape[1])
    ctx.claim("columns: northing, easting, extras, then variables", list(table.columns) == [dims[0], dims[1]] + list(xnames) + list(names))
    if len(table) != shape[0] * shape[1] or not all(c in table.columns for c in [dims[0], dims[1]] + list(xnames) + list(names)):
        return
    for i in range(shape[0]):
        for j in range(shape[1]):
            r = i * shape[1] + j
            ctx.claim("row i*n_east+j holds that cell's northing", eq(table[dims[0]].values[r], n[i]))
            ctx.claim("row i*n_east+j holds that cell's easting", eq(table[dims[1]].values[r], e[j]))
            for name, d in zip(names, datas):
                ctx.claim("row holds every variable of that cell", eq(table[name].values[r], d[i, j]))
            for xn, x in zip(xnames, extras):
                ctx.claim("row holds the extra coordinates of that cell", eq(table[xn].values[r], x[i, j]))


def h_table_inputs(ctx):
    """grid_to_table on grids built directly with xarray: Dataset with coordinates
    declared in another order, named and unnamed DataArray"""
    cfg = ctx.cfg
    shape = tuple(cfg["shape"])
    dims = tuple(cfg.get("dims", ("northing", "easting")))
    e, n = _axes(ctx, shape)
    d0 = ctx.reals("d0", shape)
    d1 = ctx.reals("d1", shape)
    x0 = ctx.reals("x0", shape)
    kind = cfg["kind"]
    if kind == "dataset_transposed":
        # stored as (easting, northing) and lazily transposed: memory order differs from the logical row-major order
        stored = xr.Dataset({"alpha": ((dims[1], dims[0]), np.ascontiguousarray(d0.T)), "beta": ((dims[1], dims[0]), np.ascontiguousarray(d1.T))}, coords={dims[0]: n, dims[1]: e, "up": ((dims[1], dims[0]), np.ascontiguousarray(x0.T))})
        grid = stored.transpose(dims[0], dims[1])
        table = vu.grid_to_table(grid)
        _table_claims(ctx, table, dims, e, n, [d0, d1], ["alpha", "beta"], [x0], ["up"])
    elif kind == "dataarray_fortran":
        grid = xr.DataArray(np.asfortranarray(d0), coords={dims[0]: n, dims[1]: e}, dims=dims, name="alpha")
        table = vu.grid_to_table(grid)
        _table_claims(ctx, table, dims, e, n, [d0], ["alpha"], [], [])
    elif kind == "dataset_reordered":
        coords = {"up": (dims, x0), dims[0]: n, dims[1]: e}
        grid = xr.Dataset({"alpha": (dims, d0), "beta": (dims, d1)}, coords=coords)
        table = vu.grid_to_table(grid)
        _table_claims(ctx, table, dims, e, n, [d0, d1], ["alpha", "beta"], [x0], ["up"])
    elif kind == "dataarray_named":
        grid = xr.DataArray(d0, coords={dims[1]: e, dims[0]: n, "up": (dims, x0)}, dims=dims, name="alpha")
        table = vu.grid_to_table(grid)
        _table_claims(ctx, table, dims, e, n, [d0], ["alpha"], [x0], ["up"])
    else:
        grid = xr.DataArray(d0, coords={dims[0]: n, dims[1]: e}, dims=dims)
        table = vu.grid_to_table(grid)
        _table_claims(ctx, table, dims, e, n, [d0], ["scalars"], [], [])


def _within(a, b):
    return le(sabs(a - b), 1e-8 + 1e-5 * sabs(b))


def h_meshgrid_check(ctx):
    """2-D coordinates are accepted iff they are meshgrids (allclose to row 0 / column 0)"""
    shape = tuple(ctx.cfg["shape"])
    e2 = ctx.reals("e", shape)
    n2 = ctx.reals("n", shape)
    d = ctx.reals("d", shape)
    is_mesh = And([_within(e2[0, j], e2[i, j]) for i in range(shape[0]) for j in range(shape[1])] + [_within(n2[i, 0], n2[i, j]) for i in range(shape[0]) for j in range(shape[1])])
    try:
        ds = vu.make_xarray_grid((e2, n2), d, "alpha")
    except ValueError:
        ctx.claim("2-D coordinates are rejected only if they are not meshgrids", Not(is_mesh))
        return
    ctx.claim("accepted 2-D coordinates are meshgrids", is_mesh)
    for j in range(shape[1]):
        ctx.claim("easting taken from row 0", eq(ds.coords["easting"].values[j], e2[0, j]))
    for i in range(shape[0]):
        ctx.claim("northing taken from column 0", eq(ds.coords["northing"].values[i], n2[i, 0]))
    for i in range(shape[0]):
        for j in range(shape[1]):
            ctx.claim("value kept at its cell", eq(ds["alpha"].values[i, j], d[i, j]))


def h_conversions(ctx):
    shape = tuple(ctx.cfg["shape"])
    e, n = _axes(ctx, shape)
    x = ctx.reals("x", shape)
    x2 = ctx.reals("xx", shape)
    out = vu.meshgrid_from_1d((e, n, x, x2))
    ctx.claim("meshgrid_from_1d returns 2-D arrays of shape (n_north, n_east) and keeps extras", And(len(out) == 4, out[0].shape == shape, out[1].shape == shape, out[2] is x, out[3] is x2))
    for i in range(shape[0]):
        for j in range(shape[1]):
            ctx.claim("meshgrid_from_1d: easting along columns, northing along rows", And(eq(out[0][i, j], e[j]), eq(out[1][i, j], n[i])))
    back = vu.meshgrid_to_1d(out)
    ctx.claim("meshgrid_to_1d(meshgrid_from_1d(c)) has c's lengths and keeps the extra coordinates, in order", And(len(back) == 4, np.shape(back[0]) == (shape[1],), np.shape(back[1]) == (shape[0],), back[2] is x, back[3] is x2))
    for j in range(shape[1]):
        ctx.claim("round trip returns the easting vector", eq(back[0][j], e[j]))
    for i in range(shape[0]):
        ctx.claim("round trip returns the northing vector", eq(back[1][i], n[i]))
    again = vu.meshgrid_from_1d(back)
    for a, b in zip(again[:2], out[:2]):
        for u, v in zip(a.ravel(), b.ravel()):
            ctx.claim("meshgrid_from_1d(meshgrid_to_1d(m)) == m", eq(u, v))
    try:
        vu.meshgrid_from_1d(out)
        ctx.claim("meshgrid_from_1d rejects 2-D input", False)
    except ValueError:
        ctx.claim("meshgrid_from_1d rejects 2-D input", True)
    try:
        vu.get_ndim_horizontal_coords(e, out[1])
        ctx.claim("mixed 1-D/2-D horizontal coordinates rejected", False)
    except ValueError:
        ctx.claim("mixed 1-D/2-D horizontal coordinates rejected", True)


def h_names(ctx):
    shape = (2, 2)
    e, n = _axes(ctx, shape)
    d = ctx.reals("d", shape)
    x = ctx.reals("x", shape)
    cases = [
        (dict(coordinates=(e, n), data=(d, d), data_names=["alpha"]), True),
        (dict(coordinates=(e, n), data=d, data_names=["alpha", "beta"]), True),
        (dict(coordinates=(e, n), data=d, data_names=None), True),
        (dict(coordinates=(e, n, x), data=d, data_names="alpha"), True),
        (dict(coordinates=(e, n, x), data=d, data_names="alpha", extra_coords_names=["up", "time"]), True),
        (dict(coordinates=(e, n, x, x), data=d, data_names="alpha", extra_coords_names="up"), True),
        (dict(coordinates=(e, n, x), data=d, data_names="alpha", extra_coords_names="up"), False),
        (dict(coordinates=(e, n), data=None, data_names=None), False),
        (dict(coordinates=(e, n), data=(d, d), data_names="alpha"), True),
        (dict(coordinates=(e, n), data=(d, d), data_names=["alpha", "beta", "gamma"]), True),
        (dict(coordinates=(e, n), data=(d, d), data_names=("alpha", "beta")), False),
        (dict(coordinates=(e, n, x, x), data=d, data_names="alpha", extra_coords_names=["up", "time"]), False),
    ]
    for kw, should_raise in cases:
        try:
            vu.make_xarray_grid(**kw)
            raised = False
        except ValueError:
            raised = True
        ctx.claim("mismatched name counts are rejected, matching ones accepted", raised == should_raise)


def _cfg_make(tier, seed):
    out = []
    if tier == "quick":
        out = [
            {"shape": (2, 3), "nvars": 2, "nextra": 1, "coords2d": False},
            {"shape": (3, 2), "nvars": 1, "nextra": 0, "coords2d": True, "dims": ("lat", "lon")},
            {"shape": (1, 3), "nvars": 1, "nextra": 2, "coords2d": False},
            {"shape": (2, 3), "nvars": 2, "nextra": 1, "coords2d": False, "fortran": True},
            {"shape": (3, 1), "nvars": 0, "nextra": 1, "coords2d": False},
            {"shape": (2, 3), "nvars": 1, "nextra": 2, "coords2d": True, "dims": ("lat", "lon")},
            {"shape": (1, 3), "nvars": 1, "nextra": 1, "coords2d": True, "dims": ("y", "x")},
        ]
    else:
        for sh in [(1, 1), (1, 3), (3, 1), (2, 3), (3, 2), (3, 3), (4, 3), (2, 5)]:
            for nv, nx in ((1, 0), (2, 1), (4, 3), (0, 1)):
                for c2 in (False, True):
                    out.append({"shape": sh, "nvars": nv, "nextra": nx, "coords2d": c2, "dims": ("lat", "lon") if c2 else ("northing", "easting"), "fortran": bool(nv == 2 and not c2)})
    return out


def _cfg_table(tier, seed):
    shapes = [(2, 3)] if tier == "quick" else [(1, 3), (3, 1), (2, 3), (3, 2)]
    return [{"shape": sh, "kind": k, "dims": d} for sh in shapes for k, d in (("dataset_reordered", ("northing", "easting")), ("dataarray_named", ("y", "x")), ("dataarray_unnamed", ("northing", "easting")), ("dataset_transposed", ("northing", "easting")), ("dataarray_fortran", ("lat", "lon")))]


HARNESSES = [
    Harness("make_xarray_grid", h_make_grid, _cfg_make, bounds="non-uniform, unordered symbolic axis vectors; shapes up to 3x3 incl. single row/column; 0-4 data variables, 0-3 extra coordinates; 1-D and 2-D coordinates; custom dims"),
    Harness("grid_to_table_inputs", h_table_inputs, _cfg_table, bounds="Dataset with coordinates declared extras-first, named and unnamed DataArray; shapes up to 3x2; custom dims"),
    Harness("meshgrid_check", h_meshgrid_check, lambda tier, seed: [{"shape": s} for s in ([(2, 2)] if tier == "quick" else [(2, 2), (2, 3), (3, 2)])], bounds="fully symbolic 2-D easting/northing arrays (any perturbation of any cell) of shape 2x2 (quick) / up to 3x2"),
    Harness("conversions", h_conversions, lambda tier, seed: [{"shape": s} for s in ([(2, 3), (1, 3), (2, 1)] if tier == "quick" else [(1, 1), (1, 3), (3, 1), (2, 1), (2, 3), (3, 3)])], bounds="symbolic axis vectors with two extra coordinates, shapes up to 3x3 incl. single row / column"),
    Harness("name_counts", h_names, {"quick": [{}]}, bounds="2x2 grid; 0-2 data arrays vs 0-2 names; 0-2 extra coordinates vs 0-2 names"),
]
