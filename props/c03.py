"""C03 Predictions evaluate the documented analytic models with the fitted parameters.

Real functions executed: verde.spline.greens_func_numpy, jacobian_numpy,
predict_numpy, Spline.jacobian / predict; verde.vector.greens_func_2d,
jacobian_2d_numpy, predict_2d_numpy, VectorSpline2D.jacobian / predict;
verde.trend.Trend.jacobian / predict, polynomial_power_combinations;
verde.synthetic.CheckerBoard.predict; verde.scipygridder.Linear / Cubic fit and
predict. numpy engine only (numba is not installed)."""
import math
from fractions import Fraction

import numpy as np

import verde as vd
from verde import spline as vs
from verde import vector as vv
from verde import trend as vt

from symx import stubs
from symx import engine as E
from symx.engine import And, Or, Not, Implies, eq, le, lt, ge, gt, ulog, usin, ucos, usqrt, CBool
from symx.harness import Harness

ASSUMPTIONS = [
    "log, sqrt, sin, cos, x**y are uninterpreted functions with the ground axioms log(b**e) = e log b (b>0), 0**0 = 1, log 1 = 0, b>0 => b**e>0, sqrt(x) >= 0, x>0 => sqrt(x)>0 (OUT-TRANSC: kernel formulas are checked, kernel numerics are not)",
    "exact real arithmetic (OUT-FP: the r = 1 / r = e cancellation behaviour in doubles is not claimed)",
    "numpy engine (numba not installed)",
    "scipy interpolators are uninterpreted functions of (class, points, values, options, query)",
]


def _g(r):
    "documented biharmonic Green's function r^2 (ln r - 1), g(0) = 0"
    if E.is_sym(r):
        return E.ite(r > 0, r * r * (ulog(r) - 1), 0) if False else None
    return 0.0 if r == 0 else r * r * (math.log(r) - 1)


def _claim_green(ctx, label, val, r):
    if ctx.sym:
        ctx.claim(label + " (r > 0)", Implies(gt(r, 0), eq(val, r * r * (ulog(r) - 1))))
        ctx.claim(label + " (r = 0)", Implies(eq(r, 0), eq(val, 0)))
    else:
        ctx.claim(label, eq(val, _g(r)))


def h_green(ctx):
    e = ctx.reals("e", (1, 2))
    n = ctx.reals("n", (1, 2))
    mindist = ctx.real("mindist", 0, None)
    out = vs.greens_func_numpy(e, n, mindist)
    ctx.claim("result has the broadcast shape of the offsets", np.shape(out) == (1, 2))
    for j in range(2):
        r = usqrt(e[0, j] * e[0, j] + n[0, j] * n[0, j]) + mindist
        _claim_green(ctx, "g(r) = r^2 (ln r - 1) with r = sqrt(e^2+n^2) + mindist, both branches", out[0, j], r)


def h_spline(ctx):
    cfg = ctx.cfg
    nobs, nf = cfg["nobs"], cfg["nforce"]
    e, n = ctx.reals("e", nobs), ctx.reals("n", nobs)
    fe, fn = ctx.reals("fe", nf), ctx.reals("fn", nf)
    force = ctx.reals("f", nf)
    import warnings

    with warnings.catch_warnings():
        warnings.simplefilter("ignore")
        if cfg.get("default_mindist"):
            # Spline(): the documented default means no offset at all (g(0) = 0 at coincident points)
            mindist = 0
            sp = vd.Spline()
        else:
            mindist = ctx.real("mindist", 0, None)
            sp = vd.Spline(mindist=mindist)
    jac = sp.jacobian((e, n), (fe, fn))
    ctx.claim("jacobian has shape (n_obs, n_forces)", np.shape(jac) == (nobs, nf))
    for i in range(nobs):
        for j in range(nf):
            dx, dy = e[i] - fe[j], n[i] - fn[j]
            r = usqrt(dx * dx + dy * dy) + mindist
            _claim_green(ctx, "jacobian[i, j] = g(|obs_i - force_j| + mindist)", jac[i, j], r)
    sp.force_ = force
    sp.force_coords_ = (fe, fn)
    pred = sp.predict((e, n))
    ctx.claim("prediction has the query shape", np.shape(pred) == (nobs,))
    for i in range(nobs):
        ctx.claim("predict = jacobian times forces", eq(pred[i], sum(jac[i, j] * force[j] for j in range(nf))))
    # 2-D query arrays keep their shape
    pred2 = sp.predict((e.reshape((1, nobs)), n.reshape((1, nobs))))
    ctx.claim("prediction keeps a 2-D query shape", np.shape(pred2) == (1, nobs))
    if cfg.get("fquery"):
        # Fortran-ordered 2x2 query built from the observation points and two of their mirror images
        q4e = np.array([[e[0], e[1 % nobs]], [-e[0], -e[1 % nobs]]], dtype=object if ctx.sym else float)
        q4n = np.array([[n[0], n[1 % nobs]], [-n[0], -n[1 % nobs]]], dtype=object if ctx.sym else float)
        pf = sp.predict((np.asfortranarray(q4e), np.asfortranarray(q4n)))
        pc = sp.predict((q4e.ravel(), q4n.ravel()))
        ctx.claim("Fortran-ordered query keeps its shape", np.shape(pf) == (2, 2))
        if np.shape(pf) == (2, 2):
            for k, idx in enumerate(np.ndindex(2, 2)):
                ctx.claim("value [i, j] belongs to query point [i, j] whatever the memory layout", eq(pf[idx], pc[k]))
    if cfg.get("shift"):
        a, b = ctx.real("a"), ctx.real("b")
        jac2 = sp.jacobian((e + a, n + b), (fe + a, fn + b))
        for i in range(nobs):
            for j in range(nf):
                ctx.claim("spline matrix depends only on coordinate differences", eq(jac2[i, j], jac[i, j]))


def h_vector(ctx):
    cfg = ctx.cfg
    nobs, nf = cfg["nobs"], cfg["nforce"]
    e, n = ctx.reals("e", nobs), ctx.reals("n", nobs)
    fe, fn = ctx.reals("fe", nf), ctx.reals("fn", nf)
    force = ctx.reals("f", 2 * nf)
    mindist = ctx.real("mindist")
    ctx.assume(mindist > 0)
    nu = ctx.real("poisson", -1, 1)
    fsh = tuple(cfg["fshape"]) if cfg.get("fshape") else (nf,)
    # force locations may be handed over as arrays of any shape (here 1-D or 2-D), like every other coordinate
    vsp = vd.VectorSpline2D(poisson=nu, mindist=mindist, force_coords=(fe.reshape(fsh), fn.reshape(fsh)))
    jac = vsp.jacobian((e, n), (fe.reshape(fsh), fn.reshape(fsh)))
    ctx.claim("jacobian has shape (2 n_obs, 2 n_forces)", np.shape(jac) == (2 * nobs, 2 * nf))
    for i in range(nobs):
        for j in range(nf):
            x, y = e[i] - fe[j], n[i] - fn[j]
            r = usqrt(x * x + y * y) + mindist
            lnr = (3 - nu) * ulog(r)
            ee = lnr + (1 + nu) * y * y / (r * r)
            nn = lnr + (1 + nu) * x * x / (r * r)
            ne = -(1 + nu) * x * y / (r * r)
            ctx.claim("east-east block: (3-nu) ln r + (1+nu) y^2/r^2", eq(jac[i, j], ee))
            ctx.claim("north-north block: (3-nu) ln r + (1+nu) x^2/r^2", eq(jac[nobs + i, nf + j], nn))
            ctx.claim("east-north block: -(1+nu) x y / r^2", eq(jac[i, nf + j], ne))
            ctx.claim("north-east block equals the east-north block (east rows/columns first)", eq(jac[nobs + i, j], ne))
    vsp.force_ = force
    pe, pn = vsp.predict((e, n))
    ctx.claim("two components of the query shape", And(np.shape(pe) == (nobs,), np.shape(pn) == (nobs,)))
    for i in range(nobs):
        ctx.claim("east prediction = east rows of the jacobian times forces (f_east; f_north)", eq(pe[i], sum(jac[i, k] * force[k] for k in range(2 * nf))))
        ctx.claim("north prediction = north rows of the jacobian times forces", eq(pn[i], sum(jac[nobs + i, k] * force[k] for k in range(2 * nf))))
    if cfg.get("coincident"):
        # finite for coincident points given mindist > 0: definedness obligations are discharged on this path
        jc = vsp.jacobian((fe, fn), (fe, fn))
        ctx.claim("matrix for coincident points is produced", np.shape(jc) == (2 * nf, 2 * nf))


def h_trend(ctx):
    degree = ctx.integer("degree", 0, ctx.cfg["maxdeg"])
    combos = vt.polynomial_power_combinations(degree)
    d = int(degree)
    ctx.claim("(N+1)(N+2)/2 monomials", len(combos) == (d + 1) * (d + 2) // 2)
    ctx.claim("every pair with i + j <= N exactly once", sorted(combos) == sorted((i, j) for i in range(d + 1) for j in range(d + 1 - i)))
    exp = [(s - j, j) for s in range(d + 1) for j in range(s + 1)]
    ctx.claim("documented order: total degree ascending, (s,0) ... (0,s) within a degree", list(combos) == exp)
    npts = 2
    e, n = ctx.reals("e", npts), ctx.reals("n", npts)
    tr = vd.Trend(degree)
    jac = tr.jacobian((e, n))
    ctx.claim("jacobian has one column per monomial", np.shape(jac) == (npts, len(exp)))
    if np.shape(jac) != (npts, len(exp)):
        return
    coef = ctx.reals("c", len(exp)) if len(exp) <= 28 else None
    for p in range(npts):
        for c, (i, j) in enumerate(exp):
            ctx.claim("jacobian[:, c] = e^i n^j for the c-th documented pair", eq(jac[p, c], e[p] ** i * n[p] ** j))
    tr.coef_ = coef
    pred = tr.predict((e.reshape((1, npts)), n.reshape((1, npts))))
    ctx.claim("prediction has the query shape", np.shape(pred) == (1, npts))
    for p in range(npts):
        ctx.claim("predict = polynomial with coef_ over the documented monomial order", eq(pred[0, p], sum(coef[c] * e[p] ** i * n[p] ** j for c, (i, j) in enumerate(exp))))
    if d <= 2:
        # 2-D query arrays that are not C-contiguous (Fortran order, transposed view): same logical result
        qe, qn = ctx.reals("qe", (2, 2)), ctx.reals("qn", (2, 2))
        for how, (ae, an) in (("Fortran-ordered", (np.asfortranarray(qe), np.asfortranarray(qn))), ("transposed view", (np.ascontiguousarray(qe.T).T, np.ascontiguousarray(qn.T).T))):
            pq = tr.predict((ae, an))
            ctx.claim("prediction keeps the 2-D query shape for every memory layout", np.shape(pq) == (2, 2))
            if np.shape(pq) == (2, 2):
                for idx in np.ndindex(2, 2):
                    ctx.claim("value [i, j] belongs to query point [i, j] whatever the memory layout of the query arrays", eq(pq[idx], sum(coef[c] * qe[idx] ** i * qn[idx] ** j for c, (i, j) in enumerate(exp))))
    try:
        vt.polynomial_power_combinations(-1)
        ctx.claim("negative degree rejected", False)
    except ValueError:
        ctx.claim("negative degree rejected", True)


def h_checkerboard(ctx):
    cfg = ctx.cfg
    w, ee, s, no = ctx.real("W"), ctx.real("E"), ctx.real("S"), ctx.real("N")
    ctx.assume(w < ee)
    ctx.assume(s < no)
    amp = ctx.real("amplitude")
    kw = {}
    we, wn = (ee - w) / 2, (no - s) / 2
    if cfg["wavelengths"] in (True, "east"):
        we = ctx.real("w_east")
        ctx.assume(we > 0)
        kw["w_east"] = we
    if cfg["wavelengths"] in (True, "north"):
        wn = ctx.real("w_north")
        ctx.assume(wn > 0)
        kw["w_north"] = wn
    cb = vd.synthetic.CheckerBoard(amplitude=amp, region=(w, ee, s, no), **kw)
    e, n = ctx.reals("e", (1, 2)), ctx.reals("n", (1, 2))
    pred = cb.predict((e, n))
    ctx.claim("prediction has the query shape", np.shape(pred) == (1, 2))
    for j in range(2):
        ctx.claim("amplitude * sin(2 pi e / w_east) * cos(2 pi n / w_north), default wavelengths half the region", eq(pred[0, j], amp * usin((2 * np.pi / we) * e[0, j]) * ucos((2 * np.pi / wn) * n[0, j])))
    ctx.claim("region_ is the region parameter", tuple(cb.region_) == (w, ee, s, no) if not ctx.sym else all(a is b for a, b in zip(cb.region_, (w, ee, s, no))))


LAYOUTS = [
    [(0.0, 0.0), (1.0, 0.0), (0.0, 1.0), (1.0, 1.5), (0.4, 0.3)],
    [(-3.0, 2.0), (5.0, 1.0), (1.0, -4.0), (2.0, 6.0)],
    [(1e5, 2e6), (1.2e5, 2.0001e6), (0.9e5, 2.0003e6), (1.1e5, 1.9998e6)],
]


def _feq(a, b):
    "equality that treats NaN == NaN (points outside the hull)"
    if E.is_sym(a) or E.is_sym(b):
        return eq(a, b)
    a, b = float(a), float(b)
    if a != a or b != b:
        return CBool((a != a) and (b != b))
    return eq(a, b)


def h_scipy(ctx):
    cfg = ctx.cfg
    pts = LAYOUTS[cfg["layout"]]
    npts = len(pts)
    e = np.array([p[0] for p in pts])
    n = np.array([p[1] for p in pts])
    data = ctx.reals("d", npts)
    sh = tuple(cfg.get("shape", (npts,)))
    # query points: symbolic combination inside the first triangle plus one free point
    t1, t2 = ctx.real("t1", 0, 1), ctx.real("t2", 0, 1)
    ctx.assume(t1 + t2 <= 1)
    qe = np.array([e[0] + t1 * (e[1] - e[0]) + t2 * (e[2] - e[0]), ctx.real("qe")], dtype=object if ctx.sym else float)
    qn = np.array([n[0] + t1 * (n[1] - n[0]) + t2 * (n[2] - n[0]), ctx.real("qn")], dtype=object if ctx.sym else float)
    rescale = cfg["rescale"]
    cls = {"linear": vd.Linear, "cubic": vd.Cubic}[cfg["kind"]]
    g = cls(rescale=rescale)
    g.fit((e.reshape(sh), n.reshape(sh)), data.reshape(sh))
    pred = g.predict((qe.reshape((1, 2)), qn.reshape((1, 2))))
    ctx.claim("prediction has the query shape", np.shape(pred) == (1, 2))
    if ctx.sym:
        ref_cls = {"linear": stubs.StubLinearND, "cubic": stubs.StubCloughTocher}[cfg["kind"]]
    else:
        from scipy.interpolate import CloughTocher2DInterpolator, LinearNDInterpolator

        ref_cls = {"linear": LinearNDInterpolator, "cubic": CloughTocher2DInterpolator}[cfg["kind"]]
    ref = ref_cls(np.column_stack((e, n)), np.asarray(data), rescale=rescale)
    rp = ref((qe, qn))
    for k in range(2):
        ctx.claim("predict returns what SciPy's class returns for the same points, values and rescale option", _feq(pred[0, k], rp[k]))
    ctx.claim("region_ is the data bounding box", And([eq(a, b) for a, b in zip(g.region_, (e.min(), e.max(), n.min(), n.max()))]))


def _interp_globals(cfg):
    return stubs.interp_globals()


HARNESSES = [
    Harness("greens_function", h_green, {"quick": [{}]}, bounds="two symbolic offset pairs (any distance incl. 0, below/above 1) and symbolic mindist >= 0", engine={"oneshot": True}),
    Harness(
        "spline_jacobian_predict",
        h_spline,
        lambda tier, seed: [{"nobs": 2, "nforce": 2}, {"nobs": 1, "nforce": 1, "shift": True, "fquery": True}, {"nobs": 2, "nforce": 1, "default_mindist": True}, {"nobs": 1, "nforce": 2}] + ([{"nobs": 2, "nforce": 3}, {"nobs": 2, "nforce": 1, "shift": True}] if tier == "thorough" else []),
        bounds="1-2 observation points x 1-3 force points (also n_obs != n_forces), all coordinates, forces and mindist >= 0 symbolic (or the constructor's default); translation by a symbolic vector",
        engine={"oneshot": True, "timeout_ms": 30000, "keyed_sqrt": True},
        timeout_s=600,
    ),
    Harness(
        "vector_spline_jacobian_predict",
        h_vector,
        lambda tier, seed: [{"nobs": 1, "nforce": 1, "coincident": True}] + ([{"nobs": 2, "nforce": 2}, {"nobs": 1, "nforce": 2, "coincident": True}, {"nobs": 2, "nforce": 2, "fshape": (2, 1)}] if tier == "thorough" else [{"nobs": 2, "nforce": 1}, {"nobs": 1, "nforce": 2, "fshape": (1, 2)}]),
        bounds="1-2 observation points x 1-2 force points (force locations as 1-D or 2-D arrays), symbolic coordinates, forces, Poisson ratio in [-1, 1] and mindist > 0 (coincident points included)",
        engine={"oneshot": True, "timeout_ms": 30000, "keyed_sqrt": True},
        timeout_s=600,
    ),
    Harness("trend_monomials", h_trend, lambda tier, seed: [{"maxdeg": 4 if tier == "quick" else 6}], bounds="degree symbolic in 0..4 (quick) / 0..6 (thorough), forked; 2 symbolic points; symbolic coefficients", engine={"oneshot": True}),
    Harness("checkerboard", h_checkerboard, {"quick": [{"wavelengths": False}, {"wavelengths": True}, {"wavelengths": "east"}, {"wavelengths": "north"}]}, bounds="symbolic region, amplitude, wavelengths (none, both, or only one given), two query points in a (1,2) array", engine={"oneshot": True}),
    Harness(
        "scipy_gridders",
        h_scipy,
        lambda tier, seed: [{"kind": k, "rescale": r, "layout": l} for k in ("linear", "cubic") for r in (False, True) for l in ((0,) if tier == "quick" else (0, 1, 2))] + [{"kind": "linear", "rescale": False, "layout": 1, "shape": (2, 2)}],
        bounds="concrete point layouts (catalogue of 3: generic, spread, large offsets), symbolic data values, one symbolic query inside a data triangle and one free symbolic query",
        stubs=["scipy LinearNDInterpolator/CloughTocher2DInterpolator -> uninterpreted function with the interpolation contract"],
        extra_globals=_interp_globals,
    ),
]
