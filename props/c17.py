"""C17 longitude_continuity yields a valid region with unchanged angular meaning.

Real functions executed: verde.coordinates.longitude_continuity,
_check_geographic_region, _check_geographic_coordinates, inside."""
from fractions import Fraction

import numpy as np

from verde import coordinates as vc

from symx.engine import And, Or, Not, Implies, eq, le, lt, ge, gt, iff, ite, sabs, is_int_value, is_sym
from symx.harness import Harness

ASSUMPTIONS = [
    "exact real arithmetic (OUT-FP: % on doubles near multiples of 360 is not modelled)",
    "np.allclose modelled as |a-b| <= atol + rtol*|b| (numpy documentation)",
    "inputs whose width is within 0.01 degree of (but not equal to) a full circle are excluded, as in the property",
]


def mod360(x):
    return x % 360


def _inputs(ctx):
    w = ctx.real("W", -180, 360)
    e = ctx.real("E", -180, 360)
    s = ctx.real("S", -90, 90)
    n = ctx.real("N", -90, 90)
    ctx.assume(s <= n)
    span = sabs(e - w)
    ctx.assume(span <= 360)
    # documented full-globe test is approximate: exclude the 0.01 degree band around it
    gap = sabs(360 - span)
    ctx.assume(Or(gap == 0, gap > Fraction(1, 100)))
    full = span >= 360
    if full:
        d = 360
    else:
        d = mod360(e - w)
    # representable arc: contiguous in [0, 360] or in [-180, 180]
    w360 = mod360(w)
    w180 = mod360(w + 180) - 180
    ctx.assume(Or(w360 + d <= 360, w180 + d <= 180))
    # input class of the east-bound-on-a-seam defect (no-op unless listed as open)
    ctx.known_class("C17-seam", And(Not(full), Or(eq(mod360(e), 0), eq(mod360(e), 180))))
    return w, e, s, n, d, full


def _region_claims(ctx, region, w, e, s, n, d, full):
    ctx.claim("region has four entries", len(region) == 4)
    w2, e2, s2, n2 = region[0], region[1], region[2], region[3]
    ctx.claim("returned W <= E", le(w2, e2))
    ctx.claim("width equals the eastward angle from W to E", eq(e2 - w2, d))
    ctx.claim("latitudes untouched", And(eq(s2, s), eq(n2, n)))
    if full:
        ctx.claim("full globe becomes (0, 360)", And(eq(w2, 0), eq(e2, 360)))
    else:
        ctx.claim("returned W congruent to input W modulo 360", is_int_value((w2 - w) / 360))
        ctx.claim("returned E congruent to input E modulo 360", is_int_value((e2 - e) / 360))
    ctx.claim(
        "returned region lies in one of the two conventions",
        Or(And(ge(w2, 0), le(e2, 360)), And(ge(w2, -180), le(e2, 180))),
    )
    return w2, e2, s2, n2


def h_region_only(ctx):
    w, e, s, n, d, full = _inputs(ctx)
    region = vc.longitude_continuity(None, [w, e, s, n])
    _region_claims(ctx, region, w, e, s, n, d, full)


def h_with_coordinates(ctx):
    npts = ctx.cfg["npts"]
    sh = tuple(ctx.cfg.get("shape", (npts,)))
    w, e, s, n, d, full = _inputs(ctx)
    lon = ctx.reals("lon", npts, -180, 360)
    lat = ctx.reals("lat", npts, -90, 90)
    coords, region = vc.longitude_continuity((lon.reshape(sh), lat.reshape(sh)), [w, e, s, n])
    w2, e2, s2, n2 = _region_claims(ctx, region, w, e, s, n, d, full)
    ctx.claim("two coordinate arrays of the input's shape", And(len(coords) == 2, np.shape(coords[0]) == sh, np.shape(coords[1]) == sh))
    if not (len(coords) == 2 and np.shape(coords[0]) == sh and np.shape(coords[1]) == sh):
        return
    coords = (np.ravel(coords[0]), np.ravel(coords[1]))
    in360 = And(ge(w2, 0), le(e2, 360))
    for i in range(npts):
        l2 = coords[0][i]
        ctx.claim("latitude of the point untouched", eq(coords[1][i], lat[i]))
        ctx.claim("returned longitude congruent to the input modulo 360", is_int_value((l2 - lon[i]) / 360))
        ctx.claim(
            "returned longitude lies in the convention of the returned region",
            Or(And(ge(l2, 0), lt(l2, 360), in360), And(ge(l2, -180), lt(l2, 180), ge(w2, -180), le(e2, 180))),
        )
        x = mod360(lon[i] - w)  # eastward angle from the input W to the point
        inside_lon = And(le(w2, l2), le(l2, e2))
        ctx.claim("a longitude angularly within the arc (short of its east end) is inside the returned bounds", Implies(lt(x, d), inside_lon))
        ctx.claim("a longitude angularly beyond the arc is outside the returned bounds", Implies(gt(x, d), Not(inside_lon)))
        ctx.claim("a longitude exactly on the arc's east end is inside the returned bounds unless that end sits on a seam (360 / 180) of the convention", Implies(And(eq(x, d), Not(eq(e2, 360)), Not(eq(e2, 180))), inside_lon))
    # the real inside() on the returned values agrees with the angular predicate
    latbox = (w2, e2, s2, n2)
    try:
        res = vc.inside((coords[0], coords[1]), latbox)
    except ValueError:
        ctx.claim("returned region accepted by inside()", False)
        return
    for i in range(npts):
        x = mod360(lon[i] - w)
        lat_ok = And(le(s, lat[i]), le(lat[i], n))
        ctx.claim("verde.inside on the returned values <=> angularly inside (strict cases)", And(Implies(And(lt(x, d), lat_ok), iff(res[i], True)), Implies(Or(gt(x, d), Not(lat_ok)), iff(res[i], False))))


def h_rejects(ctx):
    "regions or coordinates outside the accepted degree ranges are rejected"
    w = ctx.real("W")
    e = ctx.real("E")
    s = ctx.real("S")
    n = ctx.real("N")
    npts = ctx.cfg.get("npts", 1)
    lon = ctx.reals("lon", npts)
    lat = ctx.reals("lat", npts)
    bad_region = Or(gt(w, 360), lt(w, -180), gt(e, 360), lt(e, -180), gt(s, 90), lt(s, -90), gt(n, 90), lt(n, -90), gt(sabs(e - w), 360))
    bad_coords = Or([Or(gt(lon[i], 360), lt(lon[i], -180), gt(lat[i], 90), lt(lat[i], -90)) for i in range(npts)])  # any one point out of range
    try:
        vc.longitude_continuity(None, [w, e, s, n])
        ctx.claim("accepted regions are within the degree ranges", Not(bad_region))
    except ValueError:
        ctx.claim("regions are rejected only when out of range", bad_region)
        return
    try:
        vc.longitude_continuity((lon, lat), [w, e, s, n])
        ctx.claim("accepted coordinates are within the degree ranges", Not(bad_coords))
    except ValueError:
        ctx.claim("coordinates are rejected only when out of range", bad_coords)


HARNESSES = [
    Harness(
        "region_only",
        h_region_only,
        {"quick": [{}]},
        bounds="W, E in [-180, 360] symbolic reals with |E-W| <= 360 describing a representable arc; S <= N in [-90, 90]; widths within 0.01 of a full circle excluded",
        outside="OUT-FP; the 0.01 degree band; unrepresentable arcs",
    ),
    Harness(
        "with_coordinates",
        h_with_coordinates,
        lambda tier, seed: [{"npts": 1}, {"npts": 2, "shape": (2, 1)}] + ([{"npts": 2}, {"npts": 3}, {"npts": 2, "shape": (1, 2)}] if tier == "thorough" else []),
        bounds="as region_only plus 1-2 (quick) / 2-3 (thorough) symbolic longitudes in [-180, 360] and latitudes in [-90, 90], as 1-D or 2-D arrays",
        outside="longitudes exactly on an east end that sits on a seam of the convention; OUT-FP",
    ),
    Harness("rejects", h_rejects, {"quick": [{}, {"npts": 2}]}, bounds="unconstrained symbolic region and one or two points (any one of them out of range)"),
]
