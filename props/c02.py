"""C02 Fitted models are the weighted, damped least-squares optimum.

Real functions executed: verde.base.least_squares.least_squares (sklearn's
StandardScaler / LinearRegression / Ridge replaced by their contracts),
Trend.fit / jacobian, Spline.fit / jacobian, VectorSpline2D.fit / jacobian,
verde.base.utils.check_fit_input, n_1d_arrays."""
import sys
import warnings
from fractions import Fraction

import numpy as np
import z3

import verde as vd
import verde.base.least_squares  # noqa: F401

from symx import stubs
from symx import engine as E
from symx.engine import And, Or, Not, Implies, eq, le, lt, ge, gt, CBool, T
from symx.harness import Harness

LSQ = sys.modules["verde.base.least_squares"]
ASSUMPTIONS = [
    "StandardScaler(with_mean=False): scale_j > 0 with scale_j^2 = var(column j) (1 for a constant column); fit_transform divides, in place iff copy=False",
    "LinearRegression/Ridge(fit_intercept=False).fit(X, y, sample_weight): coef_ satisfies the normal equations X^T W X p + alpha p = X^T W y (OUT-LIB: that sklearn attains the minimiser); the objective is convex, so stationarity is optimality",
    "exact real arithmetic (OUT-FP); the limit w -> 0+ is represented by w = 0",
]


def _globals(cfg):
    return stubs.regression_globals()


def _loose_eq(a, b, scale):
    "replay comparison of two sums with a tolerance relative to the magnitude of their terms"
    a, b, scale = float(a), float(b), float(scale)
    if abs(a - b) <= 1e-7 * max(1.0, scale):
        return CBool(True)
    return CBool(False)


def h_optimality(ctx):
    cfg = ctx.cfg
    n, m = cfg["n"], cfg["m"]
    stubs.reset_logs()
    stubs.SCALE_CONTRACT["exact"] = True
    u = ctx.reals("u", (n, m))
    s = ctx.reals("s", m)
    for v in s:
        ctx.assume(v > 0)
    d = ctx.reals("d", n)
    w = None
    if cfg["weights"]:
        if cfg.get("wscale"):
            # weights of extreme magnitude (unnormalised 1/sigma^2): w_i = 2^k * v_i with v_i in [1/2, 2]; the power of two is exact in reals and doubles
            v = ctx.reals("w", n, 0.5, 2.0)
            w = v * (2.0 ** cfg["wscale"])
        else:
            w = ctx.reals("w", n)
            for v in w:
                ctx.assume(v > 0)
    alpha = None
    if cfg["damping"]:
        alpha = ctx.real("alpha")
        ctx.assume(alpha > 0)
    # columns of u have unit variance (or are constant, then scale 1): J = u * s is an arbitrary matrix written in unit-variance-column scaling
    if ctx.sym:
        for j in range(m):
            col = [u[i, j] for i in range(n)]
            mean = sum(col) / n
            var = sum((c - mean) * (c - mean) for c in col) / n
            if cfg.get("constcol") == j:
                ctx.assume(And([eq(c, col[0]) for c in col]))
                ctx.assume(eq(s[j], 1))
            else:
                ctx.assume(eq(var, 1))
        J = np.empty((n, m), dtype=object)
        for i in range(n):
            for j in range(m):
                J[i, j] = u[i, j] * s[j]
        stubs.SCALE_HINT.append(list(s))
    else:
        # replay: normalise the model's u numerically so that the precondition holds in doubles
        uu = np.array(u, dtype=float)
        for j in range(m):
            sd = uu[:, j].std()
            if sd > 0:
                uu[:, j] = uu[:, j] / sd
        u = uu
        J = u * np.asarray(s, dtype=float)
    J0 = J.copy()
    copy = cfg["copy"]
    params = LSQ.least_squares(J, d, w, damping=alpha, copy_jacobian=copy)
    ctx.claim("one parameter per column", np.shape(params) == (m,))
    if np.shape(params) != (m,):
        return
    ww = w if w is not None else [1] * n
    resid = [sum(J0[i, k] * params[k] for k in range(m)) - d[i] for i in range(n)]
    for j in range(m):
        Gj = sum(ww[i] * J0[i, j] * resid[i] for i in range(n))
        if alpha is not None:
            Gj = Gj + alpha * s[j] * s[j] * params[j]
        if ctx.sym:
            Hj = E.SymReal(stubs.REGRESSION_LOG[-1]["normal_eqs"][j])
            ctx.claim("certificate: gradient_j of [sum w r^2 + damping * |scaled params|^2] at the returned parameters = scale_j * (solver's normal-equation residual_j), which is zero", eq(Gj, s[j] * Hj))
        else:
            mag = sum(abs(float(ww[i] * J0[i, j])) * (sum(abs(float(J0[i, k] * params[k])) for k in range(m)) + abs(float(d[i]))) for i in range(n)) + (abs(float(alpha * s[j] * s[j] * params[j])) if alpha is not None else 0)
            f = 2.0 ** -cfg["wscale"] if cfg.get("wscale") else 1.0  # the tolerance's absolute floor is meant for weights of order one
            ctx.claim("returned parameters are a stationary point of sum w r^2 + damping * |params in unit-variance scaling|^2", _loose_eq(Gj * f, 0.0, mag * f))
    if ctx.sym:
        rec = stubs.REGRESSION_LOG[-1]
        sc = stubs.SCALER_LOG[-1]
        ctx.claim("weights are passed as sample_weight", (rec["w"] is None) if w is None else (rec["w"] is not None and all(a is b for a, b in zip(rec["w"], w))))
        ctx.claim("damping is the Ridge alpha; no damping means plain LinearRegression", (rec["kind"] == "StubLinearRegression" and rec["alpha"] is None) if alpha is None else (rec["kind"] == "StubRidge" and rec["alpha"] is alpha))
        ctx.claim("the scaler is given the caller's Jacobian and copies it iff copy_jacobian", And(sc["input"] is J, sc["copy"] == copy))
        ctx.claim("data handed to the solver raveled, same values", And([eq(a, b) for a, b in zip(rec["y"], d)]))
    if copy:
        ctx.claim("copy_jacobian=True leaves the caller's Jacobian untouched", And([eq(a, b) for a, b in zip(J.ravel(), J0.ravel())]))


def h_weight_laws(ctx):
    "scale invariance of undamped fits and vanishing weights, on the normal equations the solver receives"
    cfg = ctx.cfg
    n, m = cfg["n"], cfg["m"]
    stubs.SCALE_CONTRACT["exact"] = False
    J = ctx.reals("J", (n, m))
    d = ctx.reals("d", n)
    w = ctx.reals("w", n)
    for v in w:
        ctx.assume(v > 0)
    c = ctx.real("c")
    ctx.assume(c > 0)
    if ctx.sym:
        stubs.reset_logs()
        LSQ.least_squares(J.copy(), d, w, damping=None, copy_jacobian=True)
        LSQ.least_squares(J.copy(), d, w * c, damping=None, copy_jacobian=True)
        r1, r2 = stubs.REGRESSION_LOG[-2], stubs.REGRESSION_LOG[-1]
        sub = [(b.t, a.t) for a, b in zip(r1["free"], r2["free"])] + [(T(b), T(a)) for a, b in zip(stubs.SCALER_LOG[-2]["scale"], stubs.SCALER_LOG[-1]["scale"])]
        for j in range(m):
            h2 = z3.substitute(r2["normal_eqs"][j], *sub)
            ctx.claim("multiplying all weights by c > 0 multiplies every normal equation by c: same solution set for an undamped fit", eq(E.SymReal(h2), c * E.SymReal(r1["normal_eqs"][j])))
        # vanishing weight: with w_k = 0 no equation mentions d_k
        k = cfg["k"]
        a, b = ctx.fresh_real("da"), ctx.fresh_real("db")
        for j in range(m):
            h = r1["normal_eqs"][j]
            h0 = z3.substitute(h, (T(w[k]), z3.RealVal(0)))
            ha = z3.substitute(h0, (T(d[k]), a.t))
            hb = z3.substitute(h0, (T(d[k]), b.t))
            ctx.claim("a datum with zero weight does not appear in the normal equations", eq(E.SymReal(ha), E.SymReal(hb)))
    else:
        p1 = LSQ.least_squares(np.array(J, dtype=float), d, w, damping=None, copy_jacobian=True)
        p2 = LSQ.least_squares(np.array(J, dtype=float), d, np.asarray(w) * c, damping=None, copy_jacobian=True)
        # compare through the residual gradient, which is insensitive to conditioning
        for j in range(m):
            g = sum(w[i] * J[i, j] * (sum(J[i, q] * p2[q] for q in range(m)) - d[i]) for i in range(n))
            mag = sum(abs(w[i] * J[i, j]) * (sum(abs(J[i, q] * p2[q]) for q in range(m)) + abs(d[i])) for i in range(n))
            ctx.claim("fit with weights c*w is stationary for the weights w", _loose_eq(g, 0.0, mag))


class _Recorder:
    def __init__(self, real, passthrough):
        self.calls = []
        self.real = real
        self.passthrough = passthrough

    def __call__(self, jacobian, data, weights, damping=None, copy_jacobian=False):
        self.calls.append({"jacobian": np.array(jacobian, dtype=object).copy(), "data": data, "weights": weights, "damping": damping})
        if self.passthrough:
            out = self.real(jacobian, data, weights, damping=damping, copy_jacobian=copy_jacobian)
        else:
            out = np.empty(np.shape(jacobian)[1], dtype=object)
            for j in range(out.size):
                out[j] = E.SymReal(E.ENGINE.new("param"))
        self.calls[-1]["out"] = np.array(out).copy()
        return out


SPLINE_LAYOUT = [(0.0, 0.0), (2.0, 0.5), (0.3, 1.7), (1.5, 2.5)]


def h_routing(ctx):
    cfg = ctx.cfg
    kind = cfg["kind"]
    sh = tuple(cfg["shape"])
    npts = int(np.prod(sh))
    mod = {"trend": "verde.trend", "spline": "verde.spline", "vector": "verde.vector"}[kind]
    modobj = sys.modules[mod]
    rec = _Recorder(LSQ.least_squares, passthrough=not ctx.sym)
    if kind == "trend":
        e, n = ctx.reals("e", sh), ctx.reals("n", sh)
    else:
        pts = SPLINE_LAYOUT[:npts]
        e = np.array([p[0] for p in pts]).reshape(sh)
        n = np.array([p[1] for p in pts]).reshape(sh)
    d0 = ctx.reals("d0", sh)
    w0 = ctx.reals("w0", sh)
    for v in w0.ravel():
        ctx.assume(v > 0)
    damping = ctx.real("damping")
    ctx.assume(damping > 0)
    if cfg.get("mem"):
        # same logical arrays, other memory layouts: weights column-major / transposed view, data as given in cfg
        from symx.harness import relayout

        w0 = relayout(w0, cfg["mem"])
        if cfg.get("mem_data"):
            d0 = relayout(d0, cfg["mem_data"])
    old = modobj.least_squares
    modobj.least_squares = rec
    try:
        with warnings.catch_warnings():
            warnings.simplefilter("ignore")
            if kind == "trend":
                est = vd.Trend(cfg["degree"])
                est.fit((e, n), d0, w0 if cfg["weights"] else None)
                jref = est.jacobian((e, n))
                dref = [d0]
                wref = [w0]
            elif kind == "spline":
                fc = None
                if cfg.get("forces"):
                    fc = (np.array([0.1, 1.9]), np.array([0.2, 2.2]))
                est = vd.Spline(damping=None if cfg.get("undamped") else damping, force_coords=fc)
                est.fit((e, n), d0, w0 if cfg["weights"] else None)
                jref = est.jacobian((e, n), est.force_coords_)
                dref = [d0]
                wref = [w0]
            else:
                d1 = ctx.reals("d1", sh)
                w1 = ctx.reals("w1", sh)
                for v in w1.ravel():
                    ctx.assume(v > 0)
                if cfg.get("mem"):
                    w1 = relayout(w1, "T" if cfg["mem"] == "F" else "F")
                fcv = (np.array([0.1, 1.9]), np.array([0.2, 2.2])) if cfg.get("forces") else None
                est = vd.VectorSpline2D(poisson=0.3, mindist=1.0, damping=None if cfg.get("undamped") else damping, force_coords=fcv)
                est.fit((e, n), (d0, d1), (w0, w1) if cfg["weights"] else None)
                jref = est.jacobian((e, n), est.force_coords)
                dref = [d0, d1]
                wref = [w0, w1]
    finally:
        modobj.least_squares = old
    ctx.claim("least_squares called exactly once by fit", len(rec.calls) == 1)
    if len(rec.calls) != 1:
        return
    call = rec.calls[0]
    exp_d = [v for comp in dref for v in comp.ravel()]
    ctx.claim("data reach the solver in C order (raveled there; vector: east component then north component)", And(np.size(call["data"]) == len(exp_d), And([eq(a, b) for a, b in zip(np.ravel(call["data"]), exp_d)])))
    if cfg["weights"]:
        exp_w = [v for comp in wref for v in comp.ravel()]
        if call["weights"] is None:
            ctx.claim("weights reach the solver raveled in the same order as the data", False)
            return
        ctx.claim("weights reach the solver raveled in the same order as the data", And(np.size(call["weights"]) == len(exp_w), And([eq(a, b) for a, b in zip(np.ravel(call["weights"]), exp_w)])))
    else:
        ctx.claim("no weights: the solver gets None", call["weights"] is None)
    ctx.claim("the design matrix is the public jacobian of the data coordinates (and force coordinates)", And(np.shape(call["jacobian"]) == np.shape(jref), And([eq(a, b) for a, b in zip(np.ravel(call["jacobian"]), np.ravel(jref))])))
    # the fitted parameters are the solver's answer, untouched, and predictions are the public jacobian at the query times them
    params = est.coef_ if kind == "trend" else est.force_
    ok = np.shape(params) == np.shape(call["out"])
    ctx.claim("the fitted parameters (coef_ / force_) are exactly what the solver returned", And(ok, And([eq(a, b) for a, b in zip(np.ravel(params), np.ravel(call["out"]))]) if ok else False))
    qe, qn = np.array([0.7, 1.9]), np.array([1.1, -0.4])
    with warnings.catch_warnings():
        warnings.simplefilter("ignore")
        pred = est.predict((qe, qn))
        jq = est.jacobian((qe, qn)) if kind == "trend" else est.jacobian((qe, qn), est.force_coords_ if kind == "spline" else est.force_coords)
    preds = list(pred) if isinstance(pred, tuple) else [pred]
    flat = [v for comp in preds for v in np.ravel(comp)]
    if ok and np.shape(jq) == (len(flat), np.size(call["out"])):
        for r in range(len(flat)):
            exp = sum(jq[r, c] * np.ravel(call["out"])[c] for c in range(np.size(call["out"])))
            ctx.claim("predictions equal the public jacobian at the query points times the solver's answer (independently solved problem)", eq(flat[r], exp) if ctx.sym else _loose_eq(flat[r], exp, sum(abs(float(jq[r, c]) * float(np.ravel(call["out"])[c])) for c in range(np.size(call["out"]))) + 1.0))
    else:
        ctx.claim("predictions equal the public jacobian at the query points times the solver's answer (independently solved problem)", False)
    if kind == "trend" or cfg.get("undamped"):
        ctx.claim("no damping requested: the solver gets None", call["damping"] is None)
    else:
        ctx.claim("the estimator's damping reaches the solver", (call["damping"] is damping) if (ctx.sym or call["damping"] is None) else eq(call["damping"], damping))


def _cfg_opt(tier, seed):
    out = []
    sizes = [(3, 2), (4, 3)] if tier == "quick" else [(2, 2), (3, 2), (4, 3), (4, 4), (4, 6), (3, 3)]
    for n, m in sizes:
        for weights in (False, True):
            for damping in (False, True):
                if tier == "quick" and (n, m) == (4, 3) and not (weights and damping):
                    continue
                out.append({"n": n, "m": m, "weights": weights, "damping": damping, "copy": bool((n + m + weights) % 2)})
    out.append({"n": 3, "m": 2, "weights": True, "damping": True, "copy": True, "constcol": 0})
    for k in (-30, 30):
        out.append({"n": 3, "m": 2, "weights": True, "damping": False, "copy": False, "wscale": k})
    out.append({"n": 3, "m": 2, "weights": True, "damping": True, "copy": True, "wscale": -30})
    return out


def _cfg_route(tier, seed):
    out = [
        {"kind": "trend", "degree": 1, "shape": (2, 2), "weights": True},
        {"kind": "trend", "degree": 2, "shape": (3,), "weights": False},
        {"kind": "spline", "shape": (2, 2), "weights": True},
        {"kind": "spline", "shape": (3,), "weights": True, "forces": True},
        {"kind": "vector", "shape": (2, 2), "weights": True},
        {"kind": "vector", "shape": (3,), "weights": False},
        {"kind": "spline", "shape": (2, 2), "weights": True, "forces": True, "undamped": True},
        {"kind": "vector", "shape": (2, 2), "weights": True, "forces": True, "undamped": True},
        {"kind": "spline", "shape": (3,), "weights": True, "undamped": True},
        {"kind": "trend", "degree": 1, "shape": (2, 2), "weights": True, "mem": "F"},
        {"kind": "spline", "shape": (2, 2), "weights": True, "mem": "T", "mem_data": "F"},
        {"kind": "vector", "shape": (2, 2), "weights": True, "mem": "F"},
    ]
    return out


HARNESSES = [
    Harness(
        "least_squares_optimality",
        h_optimality,
        _cfg_opt,
        bounds="Jacobian n x m up to 4x3 (quick) / 4x6 (thorough) with every entry symbolic (written as unit-variance column times a positive symbolic scale, or a constant column), symbolic data, positive symbolic weights or none, positive symbolic damping or none, both copy_jacobian settings",
        stubs=["sklearn StandardScaler/LinearRegression/Ridge -> contracts (the ghost scale is checked against the StandardScaler contract)"],
        extra_globals=_globals,
        engine={"oneshot": True, "timeout_ms": 60000},
        outside="OUT-LIB: that LAPACK attains the stationary point; OUT-FP",
        timeout_s=900,
    ),
    Harness(
        "weight_laws",
        h_weight_laws,
        lambda tier, seed: [{"n": 3, "m": 2, "k": 1}] + ([{"n": 4, "m": 3, "k": 0}, {"n": 4, "m": 4, "k": 3}] if tier == "thorough" else []),
        bounds="symbolic Jacobian up to 4x4, data, positive weights, positive factor c; zero weight on one datum",
        stubs=["sklearn StandardScaler/LinearRegression -> contracts"],
        extra_globals=_globals,
        engine={"oneshot": True},
    ),
    Harness(
        "fit_routing",
        h_routing,
        _cfg_route,
        bounds="Trend (degree 1-2, symbolic coordinates), Spline and VectorSpline2D (concrete 3-4 point layout, forces at the data or at 2 separate points) with symbolic data and weights of shape (2,2) / (3,)",
        stubs=["least_squares -> recorder (pass-through in the replay)"],
        engine={"oneshot": True},
    ),
]
