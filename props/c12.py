"""C12 Scores come from models fitted on training data only, with the stated metric.

Real functions executed: verde.model_selection.cross_val_score, fit_score, select,
train_test_split; verde.base.utils.score_estimator, DummyEstimator;
BaseGridder.score; verde.utils.dispatch (with real dask.delayed);
verde.spline.SplineCV.fit / predict; real scikit-learn KFold / ShuffleSplit /
clone; BlockKFold / BlockShuffleSplit with block_split by the C08 contract."""
import itertools
import warnings
from fractions import Fraction

import numpy as np
from sklearn.model_selection import KFold, ShuffleSplit

import verde as vd
from verde import model_selection as vms

from symx import stubs, gridders
from symx import engine as E
from symx.gridders import UFGridder, P
from symx.engine import And, Or, Not, Implies, eq, le, lt, ge, gt, CBool
from symx.harness import Harness

ASSUMPTIONS = [
    "the estimator is a real BaseGridder subclass that records every fit and predicts an uninterpreted function of its identity and the location (so a score names the model it came from)",
    "sklearn's scorer is replaced by the closed forms of r2 / neg_mean_squared_error (any other scorer: an uninterpreted function of predictions, truth and weights); the replay uses the real scikit-learn scorers",
    "KFold / ShuffleSplit / clone run for real with concrete seeds; the delayed graph is computed with dask's synchronous scheduler in the given and in the reversed task order (beyond that, task-order independence is argued from the absence of shared state: every task gets its own clone and freshly indexed arrays)",
    "denominator of r2 is assumed non-zero (test data not all equal) in the symbolic run",
]


def _globals(cfg):
    g = dict(stubs.scoring_globals())
    g[("verde.model_selection", "block_split")] = stubs.BlockSplitContract()
    g.update(stubs.regression_globals())
    return g


def _metric(ctx, scoring, y_pred, y_true, w):
    if ctx.sym:
        return stubs.metric_formula(scoring, y_pred, y_true, w)
    from sklearn.metrics import mean_squared_error, r2_score

    yp, yt = np.asarray(y_pred, dtype=float), np.asarray(y_true, dtype=float)
    ww = None if w is None else np.asarray(w, dtype=float)
    if scoring in (None, "r2"):
        return r2_score(yt, yp, sample_weight=ww)
    if scoring == "neg_mean_squared_error":
        return -mean_squared_error(yt, yp, sample_weight=ww)
    if scoring == "neg_mean_absolute_error":
        from sklearn.metrics import mean_absolute_error

        return -mean_absolute_error(yt, yp, sample_weight=ww)
    raise ValueError(scoring)


def _clones(orig):
    return [v for v in gridders.LOG.values() if v["obj"] is not orig and v["obj"].ident == orig.ident]


def _dataset(ctx, n, ncomp, weighted, shape=None, fortran=False):
    sh = shape or (n,)
    e, no = ctx.reals("e", sh), ctx.reals("n", sh)
    data = [ctx.reals("d%d" % c, sh) for c in range(ncomp)]
    if fortran:
        # same logical contents, column-major memory for the data only (coordinates stay C-ordered)
        data = [np.asfortranarray(d) for d in data]
    weights = None
    if weighted:
        weights = [ctx.reals("w%d" % c, sh) for c in range(ncomp)]
        for wc in weights:
            for v in wc.ravel():
                ctx.assume(v > 0)
    return e, no, data, weights


def _make_cv(cfg):
    kind = cfg["cv"]
    if kind == "kfold":
        return KFold(n_splits=cfg["n_splits"], shuffle=True, random_state=cfg["seed"])
    if kind == "blockkfold":
        return vd.BlockKFold(shape=tuple(cfg["bshape"]), n_splits=cfg["n_splits"], shuffle=True, random_state=cfg["seed"])
    if kind == "shuffle":
        return ShuffleSplit(n_splits=cfg["n_splits"], test_size=cfg.get("test_size", 0.4), random_state=cfg["seed"])
    return None


def _nonconstant(ctx, arr):
    "r2 needs test data that are not all equal (otherwise its denominator vanishes)"
    vals = list(np.ravel(arr))
    if len(vals) > 1:
        ctx.assume(Or([Not(eq(vals[0], v)) for v in vals[1:]]))


def h_cross_val_score(ctx):
    cfg = ctx.cfg
    gridders.reset()
    n, ncomp = cfg["n"], cfg.get("ncomp", 1)
    sh = tuple(cfg["shape"]) if cfg.get("shape") else (n,)
    e, no, data, weights = _dataset(ctx, n, ncomp, cfg.get("weighted", False), sh, cfg.get("fortran", False))
    scoring = cfg.get("scoring")
    # rows (and the clone of each split) are identified by their easting in the replay: pairwise distinct
    fl = list(e.ravel())
    for i in range(n):
        for j in range(i + 1, n):
            ctx.assume(Not(eq(fl[i], fl[j])) if ctx.sym else bool(fl[i] != fl[j]))
    est = UFGridder(ident=3, ncomp=ncomp)
    cv = _make_cv(cfg)
    darg = tuple(data) if ncomp > 1 else data[0]
    warg = None if weights is None else (tuple(weights) if ncomp > 1 else weights[0])
    feature = np.zeros((n, 2))
    if cfg.get("members"):
        # a blocked cross-validator sees the coordinates: the expected folds are those of the same splitter on (easting, northing) columns
        _assume_members(ctx, e, no, cfg["members"], tuple(cfg["bshape"]))
        feature = np.transpose((e.ravel(), no.ravel()))
    splits = list((cv or KFold(shuffle=True, random_state=0, n_splits=5)).split(feature))
    if scoring in (None, "r2") and ctx.sym:
        for _, test in splits:
            for c in range(ncomp):
                _nonconstant(ctx, data[c].ravel()[test])
    with warnings.catch_warnings():
        warnings.simplefilter("ignore")
        kw = {}
        if cv is not None:
            kw["cv"] = cv
        if scoring is not None:
            kw["scoring"] = scoring
        scores = vd.cross_val_score(est, (e, no), darg, weights=warg, delayed=cfg.get("delayed", False), **kw)
        if cfg.get("delayed"):
            import dask

            ctx.claim("delayed=True returns one delayed object per split", len(scores) == len(splits) and all(hasattr(s, "compute") for s in scores))
            if cfg.get("reverse"):
                # another task order: the last split's task is computed first
                scores = np.asarray(dask.compute(*scores[::-1], scheduler="synchronous")[::-1])
            else:
                scores = np.asarray(dask.compute(*scores, scheduler="synchronous"))
    ctx.claim("one score per split", np.shape(scores) == (len(splits),))
    ctx.claim("the estimator passed in is left unfitted and unchanged", And(not hasattr(est, "fitno_"), not hasattr(est, "region_"), est.get_params() == {"ident": 3, "ncomp": ncomp}, len(gridders.fits_of(est)) == 0))
    clones = _clones(est)
    ctx.claim("a fresh clone is fitted exactly once per split", And(len(clones) == len(splits), all(len(c["fits"]) == 1 for c in clones)))
    if len(clones) != len(splits) or np.shape(scores) != (len(splits),):
        return
    ev, nv = e.ravel(), no.ravel()
    used = set()
    for k, (train, test) in enumerate(splits):
        # find the clone fitted on exactly these training rows
        match = None
        for ci, c in enumerate(clones):
            if ci in used:
                continue
            rec = c["fits"][0]
            if np.shape(rec["coordinates"][0]) == (len(train),):
                match = ci
                rec_ok = rec
                # several clones may have the same number of rows: prefer one whose rows are the training rows
                same = all((rec["coordinates"][0][i] is ev[t]) if ctx.sym else (rec["coordinates"][0][i] == ev[t]) for i, t in enumerate(train))
                if same:
                    break
        ctx.claim("each split's clone is fitted on as many rows as the training set", match is not None)
        if match is None:
            return
        used.add(match)
        rec = clones[match]["fits"][0]
        rc = rec["coordinates"]
        rd = list(rec["data"]) if isinstance(rec["data"], tuple) else [rec["data"]]
        ctx.claim("clone fitted on the training rows only: coordinates aligned by row", And([And(eq(rc[0][i], ev[t]), eq(rc[1][i], nv[t])) for i, t in enumerate(train)]))
        ctx.claim("clone fitted with every data component of the training rows", And(len(rd) == ncomp, And([eq(rd[c][i], data[c].ravel()[t]) for c in range(min(ncomp, len(rd))) for i, t in enumerate(train)])))
        if weights is None:
            ctx.claim("no weights: clone fitted without weights", rec["weights"] is None or all(x is None for x in rec["weights"]))
        else:
            rw = list(rec["weights"]) if isinstance(rec["weights"], tuple) else [rec["weights"]]
            ctx.claim("clone fitted with the training rows' weights, component by component", And(len(rw) == ncomp, And([eq(rw[c][i], weights[c].ravel()[t]) for c in range(min(ncomp, len(rw))) for i, t in enumerate(train)])))
        # the score: requested metric of the clone's predictions at the test rows vs test data with test weights, mean over components
        comps = []
        for c in range(ncomp):
            yp = [P(3, 1, c, ev[t], nv[t]) for t in test]
            yt = [data[c].ravel()[t] for t in test]
            ww = None if weights is None else [weights[c].ravel()[t] for t in test]
            comps.append(_metric(ctx, scoring, yp, yt, ww))
        expect = sum(comps) / ncomp
        ctx.claim("score k = mean over components of the requested metric on the test rows only (test weights applied)", eq(scores[k], expect))


def h_score(ctx):
    cfg = ctx.cfg
    gridders.reset()
    n, ncomp = cfg["n"], cfg.get("ncomp", 1)
    e, no, data, weights = _dataset(ctx, n, ncomp, cfg.get("weighted", False), tuple(cfg.get("shape", (n,))))
    est = UFGridder(ident=5, ncomp=ncomp)
    fe, fn, fd = ctx.reals("fe", 2), ctx.reals("fn", 2), ctx.reals("fd", 2)
    est.fit((fe, fn), tuple([fd] * ncomp) if ncomp > 1 else fd)
    if ctx.sym:
        for c in range(ncomp):
            _nonconstant(ctx, data[c])
    darg = tuple(data) if ncomp > 1 else data[0]
    warg = None if weights is None else (tuple(weights) if ncomp > 1 else weights[0])
    with warnings.catch_warnings():
        warnings.simplefilter("ignore")
        s = est.score((e, no), darg, weights=warg)
    comps = []
    for c in range(ncomp):
        yp = [P(5, 1, c, a, b) for a, b in zip(e.ravel(), no.ravel())]
        ww = None if weights is None else list(weights[c].ravel())
        comps.append(_metric(ctx, "r2", yp, list(data[c].ravel()), ww))
    ctx.claim("score() is the weighted R2 of the predictions at the given points, averaged over components", eq(s, sum(comps) / ncomp))
    ctx.claim("score() does not refit", len(gridders.fits_of(est)) == 1)


def _assume_members(ctx, e, no, members, bshape, spacing=None):
    """every point lies strictly inside its block of the bshape layout of the region inferred from the points themselves
    (border blocks reach the region's edge); with a spacing the inferred region is exactly bshape blocks of that size"""
    region = vd.get_region((e, no))
    ctx.assume(region[0] < region[1])
    ctx.assume(region[2] < region[3])
    if spacing:
        ctx.assume(And(eq(region[1] - region[0], bshape[1] * Fraction(spacing[1])), eq(region[3] - region[2], bshape[0] * Fraction(spacing[0]))) if ctx.sym else bool(abs((region[1] - region[0]) - bshape[1] * spacing[1]) < 1e-9 and abs((region[3] - region[2]) - bshape[0] * spacing[0]) < 1e-9))
    for p in range(e.size):
        ev, nv = e.ravel()[p], no.ravel()[p]
        i, j = divmod(members[p], bshape[1])
        we = (region[1] - region[0]) / bshape[1]
        hn = (region[3] - region[2]) / bshape[0]
        ctx.assume(And(True if j == 0 else gt(ev, region[0] + j * we), True if j == bshape[1] - 1 else lt(ev, region[0] + (j + 1) * we), True if i == 0 else gt(nv, region[2] + i * hn), True if i == bshape[0] - 1 else lt(nv, region[2] + (i + 1) * hn)))
    return region


def _block_call_ok(ctx, call, ev, nv, shape, spacing):
    k = call["kwargs"]
    coords = k.get("coordinates", call["args"][0] if call["args"] else None)
    if coords is None or len(coords) < 2 or np.shape(coords[0]) != np.shape(ev) or np.shape(coords[1]) != np.shape(nv):
        return False
    same = And([And(eq(a, b), eq(c, d)) for a, b, c, d in zip(coords[0], ev, coords[1], nv)])
    sh, sp = k.get("shape"), k.get("spacing")
    return And(same, (sh is None) if shape is None else (sh is not None and tuple(sh) == tuple(shape)), (sp is None) if spacing is None else (sp is not None and tuple(np.atleast_1d(sp)) == tuple(spacing)))


def h_train_test_split(ctx):
    cfg = ctx.cfg
    n, ncomp = cfg["n"], cfg.get("ncomp", 1)
    sh = tuple(cfg.get("shape", (n,)))
    e, no, data, weights = _dataset(ctx, n, ncomp, cfg.get("weighted", False), sh, cfg.get("fortran", False))
    darg = tuple(data) if ncomp > 1 else data[0]
    warg = None if weights is None else (tuple(weights) if ncomp > 1 else weights[0])
    # rows are identified by their easting in the replay: pairwise distinct
    fl = list(e.ravel())
    for i in range(n):
        for j in range(i + 1, n):
            ctx.assume(Not(eq(fl[i], fl[j])) if ctx.sym else bool(fl[i] != fl[j]))
    kw = {"random_state": cfg["seed"], "test_size": cfg.get("test_size", 0.4)}
    members = cfg.get("members")
    if members:
        bshape = tuple(cfg["bshape"])
        _assume_members(ctx, e, no, members, bshape, cfg.get("spacing"))
        if cfg.get("spacing"):
            kw["spacing"] = tuple(cfg["spacing"])
        else:
            kw["shape"] = bshape
    with warnings.catch_warnings(), stubs.recording(vms, "block_split") as rec:
        warnings.simplefilter("ignore")
        train, test = vd.train_test_split((e, no), darg, weights=warg, **kw)
    ev, nv = e.ravel(), no.ravel()
    if members:
        ctx.claim("blocks are built once, from (easting, northing) in that order and with the requested shape/spacing", And(len(rec.calls) == 1, _block_call_ok(ctx, rec.calls[0], ev, nv, kw.get("shape"), kw.get("spacing"))) if rec.calls else False)
    else:
        ctx.claim("without shape/spacing no blocks are built", len(rec.calls) == 0)

    def rows(part):
        coords, dat, wts = part
        k = len(coords[0])
        idx = []
        for i in range(k):
            hit = [t for t in range(n) if ((coords[0][i] is ev[t]) if ctx.sym else (coords[0][i] == ev[t]))]
            idx.append(hit[0] if hit else None)
        return idx

    tr, te = rows(train), rows(test)
    ctx.claim("every returned row is a row of the input", None not in tr and None not in te)
    if None in tr or None in te:
        return
    ctx.claim("train and test rows are complementary", And(sorted(tr + te) == list(range(n)), len(set(tr) & set(te)) == 0, len(te) > 0, len(tr) > 0))
    for part, idx in ((train, tr), (test, te)):
        coords, dat, wts = part
        ctx.claim("coordinates, data and weights come as tuples with one entry per component", And(len(coords) == 2, len(dat) == ncomp, len(wts) == ncomp))
        for i, t in enumerate(idx):
            ctx.claim("northing stays aligned with easting", eq(coords[1][i], nv[t]))
            for c in range(ncomp):
                ctx.claim("every data component stays aligned with its row", eq(dat[c][i], data[c].ravel()[t]))
                if weights is not None:
                    ctx.claim("every weight component stays aligned with its row", eq(wts[c][i], weights[c].ravel()[t]))
        if weights is None:
            ctx.claim("no weights in, None out", all(x is None for x in wts))
    if members:
        ctx.claim("with a shape/spacing whole blocks go to one side", len(set(members[t] for t in tr) & set(members[t] for t in te)) == 0)


class _CVSStub:
    "verde.spline.cross_val_score replaced by symbolic score vectors (one per candidate)"

    def __init__(self, ctx, nsplits, real=None):
        self.ctx = ctx
        self.nsplits = nsplits
        self.calls = []
        self.real = real

    def __call__(self, estimator, coordinates, data, weights=None, cv=None, client=None, delayed=False, scoring=None):
        k = len(self.calls)
        if self.ctx.sym:
            scores = self.ctx.reals("score%d" % k, self.nsplits)
        else:  # replay: record the arguments and run the real cross-validation
            scores = self.real(estimator, coordinates, data, weights=weights, cv=cv, client=client, delayed=delayed, scoring=scoring)
        self.calls.append({"params": estimator.get_params(), "scores": scores, "coordinates": coordinates, "data": data, "weights": weights, "scoring": scoring, "cv": cv, "delayed": delayed})
        return scores


def h_splinecv(ctx):
    cfg = ctx.cfg
    import verde.spline as vsp

    pts = [(0.0, 0.0), (2.0, 0.5), (0.3, 1.7), (1.5, 2.5), (2.5, 2.0), (0.8, 0.9)]
    e = np.array([p[0] for p in pts])
    n = np.array([p[1] for p in pts])
    d = ctx.reals("d", len(pts))
    dampings = cfg["dampings"]
    mindists = tuple(cfg.get("mindists", (0,)))
    w = None
    if cfg.get("weighted"):
        w = ctx.reals("w", len(pts))
        for x in w:
            ctx.assume(x > 0)
    scoring = cfg.get("scoring")
    cv = KFold(n_splits=2, shuffle=True, random_state=1)
    kw = {"cv": cv, "delayed": cfg.get("delayed", False)}
    if scoring is not None:
        kw["scoring"] = scoring
    if len(mindists) > 1 or mindists[0] != 0:
        kw["mindists"] = mindists
    grid = list(itertools.product(mindists, dampings))  # documented search order: every (mindist, damping) combination
    old = vsp.cross_val_score
    stub = _CVSStub(ctx, 2, old)
    stubs.reset_logs()
    stubs.SCALE_CONTRACT["exact"] = False
    vsp.cross_val_score = stub
    coords = (e, n)
    try:
        with warnings.catch_warnings():
            warnings.simplefilter("ignore")
            if cfg.get("set_params"):
                # the grid is changed after construction: fit must search the current grid
                scv = vd.SplineCV(dampings=(1000.0, 10.0, 7.0, 3.0), **kw)
                scv.set_params(dampings=dampings)
            else:
                scv = vd.SplineCV(dampings=dampings, **kw)
            if w is None:
                scv.fit(coords, d)
            else:
                scv.fit(coords, d, weights=w)
    finally:
        vsp.cross_val_score = old
    ctx.claim("one mean score per candidate", len(scv.scores_) == len(grid))
    if len(scv.scores_) != len(grid):
        return
    means = [s for s in np.asarray(scv.scores_ if not cfg.get("delayed") else [x.compute() if hasattr(x, "compute") else x for x in scv.scores_], dtype=object)]
    ctx.claim("every candidate is scored once, in the order of the (mindist, damping) grid", And(len(stub.calls) == len(grid), all(c["params"]["damping"] == dm and c["params"]["mindist"] == md for c, (md, dm) in zip(stub.calls, grid))))
    if True:
        for k, c in enumerate(stub.calls):
            if ctx.sym:
                ctx.claim("candidate's score is the mean of its cross-validation scores", eq(means[k], sum(c["scores"]) / len(c["scores"])))
            ctx.claim("every candidate is cross-validated on the caller's coordinates, data and weights with SplineCV's own cv, scoring and delayed settings", And(c["coordinates"] is coords, c["data"] is d, c["weights"] is w, c["cv"] is cv, c["scoring"] == scoring, bool(c["delayed"]) == bool(cfg.get("delayed", False))))
    best = [k for k, (md, dm) in enumerate(grid) if dm == scv.spline_.damping and md == scv.spline_.mindist]
    ctx.claim("the selected model is a Spline with one of the candidate parameter sets", len(best) == 1 and isinstance(scv.spline_, vd.Spline))
    if len(best) != 1:
        return
    b = best[0]
    for k in range(len(grid)):
        ctx.claim("the selected candidate has the highest mean cross-validated score", ge(means[b], means[k]))
    ctx.claim("damping_/mindist_ expose the selection", And(scv.damping_ == grid[b][1], scv.mindist_ == grid[b][0]))
    ctx.claim("the selected spline is fitted to all the data (forces at every data point)", And(np.shape(scv.spline_.force_coords_[0]) == (len(pts),), And([eq(a, b2) for a, b2 in zip(scv.spline_.force_coords_[0], e)])))
    q = (np.array([0.7, 1.9]), np.array([1.1, -0.4]))
    pa, pb = scv.predict(q), scv.spline_.predict(q)
    ctx.claim("predict delegates to the selected spline", And([eq(u, v) for u, v in zip(pa, pb)]))
    if ctx.sym:
        rg = stubs.REGRESSION_LOG[-1]
        ctx.claim("the selected spline's solve used all the data, the caller's weights and the selected damping", And(rg["alpha"] == grid[b][1], np.shape(rg["y"]) == (len(pts),), And([eq(u, v) for u, v in zip(rg["y"], d)]), (rg["w"] is None) if w is None else (rg["w"] is not None and And([eq(u, v) for u, v in zip(rg["w"], w)]))))
    else:
        # replay: a plain Spline with the same parameters fitted to all the data gives the same forces
        with warnings.catch_warnings():
            warnings.simplefilter("ignore")
            ref = vd.Spline(damping=grid[b][1], mindist=grid[b][0]).fit((e, n), d, weights=w)
        mag = max(1.0, max(abs(float(v)) for v in d))
        for u, v in zip(scv.spline_.force_, ref.force_):
            ctx.claim("predicts exactly like a Spline with those parameters fitted to all the data", CBool(abs(float(u) - float(v)) <= 1e-6 * mag * max(1.0, abs(float(v)))))


def _cfg_cvs(tier, seed):
    q = [
        {"n": 4, "cv": "kfold", "n_splits": 2, "seed": 0, "scoring": None},
        {"n": 5, "cv": "kfold", "n_splits": 2, "seed": 3, "scoring": "neg_mean_squared_error", "weighted": True, "ncomp": 2},
        {"n": 4, "cv": "shuffle", "n_splits": 2, "seed": 1, "scoring": "r2", "weighted": True, "delayed": True, "shape": (2, 2)},
        {"n": 5, "cv": "kfold", "n_splits": 2, "seed": 6, "scoring": "neg_mean_squared_error", "weighted": True, "delayed": True, "reverse": True},
        {"n": 5, "cv": "kfold", "n_splits": 2, "seed": 2, "scoring": "neg_mean_absolute_error", "weighted": True},
        {"n": 6, "cv": "kfold", "n_splits": 2, "seed": 4, "scoring": "neg_mean_squared_error", "weighted": True, "shape": (2, 3), "fortran": True},
        {"n": 4, "cv": "blockkfold", "n_splits": 2, "seed": 0, "scoring": "neg_mean_squared_error", "members": [0, 1, 1, 0], "bshape": (1, 2)},
        {"n": 4, "cv": "kfold", "n_splits": 2, "seed": 5, "scoring": None, "weighted": True},
    ]
    if tier == "quick":
        return q
    return q + [
        {"n": 6, "cv": "kfold", "n_splits": 3, "seed": seed, "scoring": None, "weighted": True, "ncomp": 2},
        {"n": 6, "cv": "shuffle", "n_splits": 3, "seed": seed + 1, "scoring": "neg_mean_squared_error", "delayed": True},
        {"n": 5, "cv": None, "scoring": "neg_mean_squared_error", "weighted": False},  # default cv: 5 folds of one row (R2 is undefined there)
        {"n": 6, "cv": "kfold", "n_splits": 2, "seed": 5, "scoring": "neg_mean_squared_error", "ncomp": 3, "weighted": True, "delayed": True},
    ]


HARNESSES = [
    Harness(
        "cross_val_score",
        h_cross_val_score,
        _cfg_cvs,
        bounds="4-6 rows with symbolic coordinates, data (1-3 components) and positive weights; KFold / ShuffleSplit with 2-3 splits and concrete seeds (default cv with 5 rows); scorers default/r2/neg_mean_squared_error/one uninterpreted; serial and dask.delayed",
        stubs=["sklearn.metrics.check_scoring -> closed-form / uninterpreted scorer (symbolic run)"],
        extra_globals=_globals,
        engine={"oneshot": True, "timeout_ms": 60000},
        outside="schedules other than the synchronous one (OUT-SIZE); values of sklearn metrics other than r2/MSE (OUT-LIB)",
    ),
    Harness("score", h_score, lambda tier, seed: [{"n": 3}, {"n": 4, "ncomp": 2, "weighted": True, "shape": (2, 2)}], bounds="3-4 symbolic rows, 1-2 components, weights or none", stubs=["check_scoring stub (symbolic run)"], extra_globals=_globals, engine={"oneshot": True, "timeout_ms": 60000}),
    Harness(
        "train_test_split",
        h_train_test_split,
        lambda tier, seed: [{"n": 5, "seed": 0, "ncomp": 2, "weighted": True}, {"n": 4, "seed": 1, "shape": (2, 2)}, {"n": 6, "seed": 3, "shape": (2, 3), "fortran": True, "weighted": True}, {"n": 5, "seed": 2, "members": [0, 3, 3, 1, 0], "bshape": (2, 2), "test_size": 0.34, "weighted": True}, {"n": 4, "seed": 1, "members": [0, 1, 1, 0], "bshape": (1, 2), "test_size": 0.5}, {"n": 4, "seed": 2, "members": [0, 1, 1, 0], "bshape": (1, 2), "spacing": (3.0, 2.0), "test_size": 0.5}] + ([{"n": 6, "seed": seed, "members": [0, 3, 2, 1, 0, 3], "bshape": (2, 2), "test_size": 0.5, "ncomp": 2}] if tier == "thorough" else []),
        bounds="4-6 symbolic rows, 1-2 components, weights or none; random and blocked (2x2 and 1x2 blocks by shape or by (s_north, s_east) spacing, enumerated membership) splits with concrete seeds",
        stubs=["block_split -> C08 contract"],
        extra_globals=_globals,
        engine={"oneshot": True},
    ),
    Harness(
        "splinecv",
        h_splinecv,
        lambda tier, seed: [{"dampings": (1e-3, 1e-1), "delayed": True}, {"dampings": (1e-2, 1.0), "set_params": True}, {"dampings": (1e-3, 1e-1), "mindists": (0.5, 0.25), "weighted": True, "scoring": "neg_mean_squared_error"}] + ([{"dampings": (1e-2, 1e-4, 1.0), "delayed": True}, {"dampings": (1e-3, 1e-1)}] if tier == "thorough" else []),
        bounds="concrete 6-point layout, symbolic data, optional symbolic positive weights; 2-3 damping candidates alone or crossed with 2 mindist candidates; default or named scoring; the cross-validation scores of each candidate are arbitrary symbolic vectors (2 splits)",
        stubs=["verde.spline.cross_val_score -> symbolic score vectors (symbolic run)", "sklearn -> contracts"],
        extra_globals=_globals,
        engine={"oneshot": True},
    ),
]
