"""C20 Calls are pure, repeatable, history-free and reject inconsistent input.

Real functions executed: a sweep over the public callables and estimator methods
(see the purity table below), check_fit_input / check_coordinates /
check_data_names / check_extra_coords_names on arrays with symbolic shapes,
fit sequences of every gridder, sklearn.base.clone / get_params."""
import warnings
from fractions import Fraction

import numpy as np
import z3
from sklearn.base import clone
from sklearn.exceptions import NotFittedError

import verde as vd
from verde.base import utils as vbu

from symx import stubs, gridders, npx
from symx import engine as E
from symx.gridders import UFGridder, P
from symx.engine import And, Or, Not, Implies, eq, le, lt, ge, gt, CBool
from symx.harness import Harness

ASSUMPTIONS = [
    "purity: every argument array is marked read-only before the call (an in-place write raises on the explored path) and compared element by element afterwards",
    "compiled libraries by contract (kd-tree, sklearn, scipy interpolators), block_split by the C08 contract inside block reductions",
    "shape agreement is decided on shape-only arrays whose .shape is a tuple of symbolic integers (rank 1-2, dims 1..3)",
    "exact real arithmetic",
]

LAYOUT = [(0.0, 0.0), (2.0, 0.5), (0.3, 1.7), (1.5, 2.5)]
LAYOUT_B = [(0.5, 0.1), (1.9, 1.5), (0.2, 2.7), (2.5, 2.0)]


def _globals(cfg):
    g = dict(stubs.regression_globals())
    g.update(stubs.interp_globals())
    g.update(stubs.kdtree_globals())
    g[("verde.blockreduce", "block_split")] = stubs.BlockSplitContract()
    g[("verde.model_selection", "block_split")] = stubs.BlockSplitContract()
    g.update(stubs.delaunay_globals())
    g.update(stubs.scoring_globals())
    g[("verde.coordinates", "check_random_state")] = stubs.stub_check_random_state
    return g


# --------------------------------------------------------------------------- purity sweep
def _mean(ctx):
    return (lambda v, **kw: np.mean(np.asarray(getattr(v, "values", v)))) if ctx.sym else np.mean


def _purity_cases(ctx):
    """name -> (callable taking the frozen arrays dict, list of array names it receives)"""
    e4 = np.array([p[0] for p in LAYOUT])
    n4 = np.array([p[1] for p in LAYOUT])
    region = (-1.0, 3.0, -1.0, 3.0)

    def W(f):
        def run(a):
            with warnings.catch_warnings():
                warnings.simplefilter("ignore")
                return f(a)

        return run

    def fitted(est, a, vec=False):
        return est.fit((a["e"], a["n"]), (a["d"], a["d2"]) if vec else a["d"], (a["w"], a["w"]) if vec else a["w"])

    cases = {
        "get_region": W(lambda a: vd.get_region((a["e"], a["n"]))),
        "inside": W(lambda a: vd.inside((a["e"], a["n"]), region)),
        "pad_region": W(lambda a: vd.pad_region(region, 0.5)),
        "block_split": W(lambda a: vd.block_split((a["e"], a["n"]), shape=(2, 2), region=region)),
        "rolling_window": W(lambda a: vd.rolling_window((a["e"], a["n"]), size=2.0, shape=(2, 2), region=region)),
        "expanding_window": W(lambda a: vd.expanding_window((a["e"], a["n"]), center=(1.0, 1.0), sizes=[1.0, 3.0])),
        "longitude_continuity": W(lambda a: vd.longitude_continuity((a["e"], a["n"]), (-1.0, 3.0, -1.0, 3.0))),
        "variance_to_weights": W(lambda a: vd.variance_to_weights(a["w"])),
        "maxabs": W(lambda a: vd.maxabs(a["d"], a["w"])),
        "make_xarray_grid+grid_to_table": W(lambda a: vd.grid_to_table(vd.make_xarray_grid((a["ge"], a["gn"]), a["g"], "scalars"))),
        "median_distance": W(lambda a: vd.median_distance((a["e"], a["n"]), k_nearest=1)),
        "distance_mask": W(lambda a: vd.distance_mask((a["e"], a["n"]), 0.75, coordinates=(a["qe"], a["qn"]))),
        "BlockReduce.filter": W(lambda a: vd.BlockReduce(_mean(ctx), shape=(1, 2), region=region).filter((a["e"], a["n"]), a["d"])),
        "BlockReduce.filter(weights)": W(lambda a: vd.BlockReduce(npx.NP.average if ctx.sym else np.average, shape=(1, 2), region=region, center_coordinates=True).filter((a["e"], a["n"]), a["d"], a["w"])),
        "BlockMean.filter": W(lambda a: vd.BlockMean(shape=(1, 2), region=region).filter((a["e"], a["n"]), a["d"], a["w"])),
        "BlockMean.filter(uncertainty)": W(lambda a: vd.BlockMean(shape=(1, 2), region=region, uncertainty=True).filter((a["e"], a["n"]), a["d"], a["w"])),
        "Trend.fit/predict/filter": W(lambda a: (fitted(vd.Trend(1), a).predict((a["qe"], a["qn"])), vd.Trend(1).filter((a["e"], a["n"]), a["d"], a["w"]))),
        "Spline.fit/predict": W(lambda a: fitted(vd.Spline(damping=0.5), a).predict((a["qe"], a["qn"]))),
        "Spline(force_coords).fit": W(lambda a: vd.Spline(force_coords=(a["qe"], a["qn"])).fit((a["e"], a["n"]), a["d"]).predict((a["qe"], a["qn"]))),
        "VectorSpline2D.fit/predict": W(lambda a: fitted(vd.VectorSpline2D(mindist=1.0), a, vec=True).predict((a["qe"], a["qn"]))),
        "KNeighbors.fit/predict": W(lambda a: vd.KNeighbors(k=2).fit((a["e"], a["n"]), a["d"]).predict((a["qe"], a["qn"]))),
        "Linear.fit/predict": W(lambda a: vd.Linear().fit((a["e"], a["n"]), a["d"]).predict((a["qe"], a["qn"]))),
        "Chain.fit/predict": W(lambda a: vd.Chain([("t", vd.Trend(1)), ("u", UFGridder(ident=2))]).fit((a["e"], a["n"]), a["d"], a["w"]).predict((a["qe"], a["qn"]))),
        "Vector.fit/predict": W(lambda a: vd.Vector([vd.Trend(1), UFGridder(ident=3)]).fit((a["e"], a["n"]), (a["d"], a["d2"]), (a["w"], a["w"])).predict((a["qe"], a["qn"]))),
        "grid(coordinates)": W(lambda a: fitted(UFGridder(ident=4), a).grid(coordinates=(a["ge"], a["gn"]))),
        "cross_val_score": W(lambda a: vd.cross_val_score(UFGridder(ident=5), (a["e"], a["n"]), a["d"], weights=a["w"], cv=__import__("sklearn.model_selection").model_selection.KFold(n_splits=2), scoring="neg_mean_squared_error")),
        "train_test_split": W(lambda a: vd.train_test_split((a["e"], a["n"]), a["d"], weights=a["w"], random_state=0, test_size=0.5)),
        "least_squares(copy_jacobian=True)": W(lambda a: __import__("sys").modules["verde.base.least_squares"].least_squares(a["jac"], a["d"], a["w"], damping=0.1, copy_jacobian=True)),
        "scatter_points": W(lambda a: vd.scatter_points(region, 3, random_state=1)),
        "profile_coordinates": W(lambda a: vd.profile_coordinates((0.0, 1.0), (2.0, 3.0), 3)),
        # regions handed over as (read-only) arrays
        "longitude_continuity(region array)": W(lambda a: vd.longitude_continuity((a["e"], a["n"]), a["reg"])),
        "pad_region(region array)": W(lambda a: vd.pad_region(a["reg"], 0.5)),
        "inside(region array)": W(lambda a: vd.inside((a["e"], a["n"]), a["reg"])),
        "grid_coordinates(region array)": W(lambda a: vd.grid_coordinates(a["reg"], shape=(2, 3), extra_coords=[1.0, 2.0])),
        "rolling_window(region array)": W(lambda a: vd.rolling_window((a["e"], a["n"]), size=2.0, shape=(2, 2), region=a["reg"])),
        "block_split(region array)": W(lambda a: vd.block_split((a["e"], a["n"]), shape=(2, 2), region=a["reg"])),
        "scatter_points(region array)": W(lambda a: vd.scatter_points(a["reg"], 3, random_state=1)),
        "BlockReduce(region array).filter": W(lambda a: vd.BlockReduce(_mean(ctx), shape=(1, 2), region=a["reg"]).filter((a["e"], a["n"]), a["d"])),
        "grid(region array)": W(lambda a: fitted(UFGridder(ident=8), a).grid(region=a["reg"], shape=(2, 2))),
        "variance_to_weights(zero variance)": W(lambda a: vd.variance_to_weights(a["var0"])),
        "convexhull_mask": W(lambda a: vd.convexhull_mask((a["e"], a["n"]), coordinates=(a["qe"], a["qn"]))),
        "distance_mask(grid)": W(lambda a: vd.distance_mask((a["e"], a["n"]), 0.75, grid=vd.make_xarray_grid((a["ge"], a["gn"]), a["g"], "scalars"))),
        "BlockKFold.split": W(lambda a: [(list(tr), list(te)) for tr, te in vd.BlockKFold(shape=(1, 2), n_splits=2).split(a["X"])]),
        "BlockShuffleSplit.split": W(lambda a: [(list(tr), list(te)) for tr, te in vd.BlockShuffleSplit(shape=(1, 2), n_splits=2, test_size=0.5, random_state=3).split(a["X"])]),
        "score": W(lambda a: fitted(UFGridder(ident=6), a).score((a["e"], a["n"]), a["d"], a["w"])),
        "scatter/profile": W(lambda a: (fitted(UFGridder(ident=7), a).scatter(region=region, size=3, random_state=2), fitted(UFGridder(ident=7), a).profile((0.0, 0.0), (1.0, 2.0), 3))),
        "jacobians": W(lambda a: (vd.Spline().jacobian((a["qe"], a["qn"]), (a["e"], a["n"])), vd.Trend(2).jacobian((a["e"], a["n"])), vd.VectorSpline2D(mindist=1.0).jacobian((a["qe"], a["qn"]), (a["e"], a["n"])))),
        "Cubic.fit/predict": W(lambda a: vd.Cubic().fit((a["e"], a["n"]), a["d"]).predict((a["qe"], a["qn"]))),
    }
    return cases, e4, n4


def h_purity(ctx):
    name = ctx.cfg["case"]
    gridders.reset()
    stubs.reset_logs()
    stubs.SCALE_CONTRACT["exact"] = False
    cases, e4, n4 = _purity_cases(ctx)
    arrays = {
        "e": e4.copy(),
        "n": n4.copy(),
        "d": ctx.reals("d", 4),
        "d2": ctx.reals("dd", 4),
        "w": ctx.reals("w", 4),
        "qe": np.array([0.7, 1.9]),
        "qn": np.array([1.1, -0.4]),
        "ge": np.array([0.0, 1.0, 2.5]),
        "gn": np.array([-1.0, 0.5]),
        "g": ctx.reals("g", (2, 3)),
        "jac": ctx.reals("j", (4, 2)),
        "reg": np.array([-1.0, 3.0, -1.0, 3.0]),
        "var0": np.array([0.0, 1.0, 4.0, 0.0]),
        "X": np.transpose((e4, n4)).copy(),
    }
    stubs.StubDelaunay.mode = "geometry"
    if name == "score":
        # R2 is undefined for constant data (zero denominator)
        ctx.assume(Or([Not(eq(arrays["d"][0], v)) for v in arrays["d"][1:]]))
    for v in arrays["w"]:
        ctx.assume(v > 0)
    before = {k: [x for x in a.ravel()] for k, a in arrays.items()}
    shapes = {k: a.shape for k, a in arrays.items()}
    for a in arrays.values():
        a.setflags(write=False)
    r1 = cases[name](arrays)
    for k, a in arrays.items():
        ctx.claim("argument arrays keep their shape", a.shape == shapes[k])
        same = []
        for x, y in zip(a.ravel(), before[k]):
            same.append((x is y) if E.is_sym(y) else bool(x == y))
        ctx.claim("no argument array is modified by the call", all(same))
        ctx.claim("argument arrays are still read-only", not a.flags.writeable)
    # repeatability: a second call with the same arguments returns identical results
    gridders.reset()
    r2 = cases[name](arrays)
    ctx.claim("repeating the call with the same arguments returns identical results", _same_result(ctx, r1, r2))


def _flatten(r):
    import pandas as pd
    import xarray as xr

    if isinstance(r, (tuple, list)):
        out = []
        for x in r:
            out.extend(_flatten(x))
        return out
    if isinstance(r, xr.Dataset):
        return [np.asarray(r[v].values) for v in r.data_vars] + [np.asarray(r.coords[c].values) for c in r.coords]
    if isinstance(r, pd.DataFrame):
        return [np.asarray(r[c].values) for c in r.columns]
    if isinstance(r, np.ndarray) and r.dtype == object and r.size and isinstance(r.ravel()[0], (tuple, list)):
        out = []
        for x in r.ravel():
            out.extend(_flatten(x))
        return out
    return [np.asarray(r)]


def _same_result(ctx, r1, r2):
    a, b = _flatten(r1), _flatten(r2)
    if len(a) != len(b):
        return False
    conds = []
    for x, y in zip(a, b):
        if x.shape != y.shape:
            return False
        for u, v in zip(x.ravel(), y.ravel()):
            if E.is_sym(u) or E.is_sym(v):
                conds.append(eq(u, v))
            elif isinstance(u, (float, np.floating)) and u != u:
                conds.append(bool(v != v))
            elif isinstance(u, (int, float, np.integer, np.floating, bool, np.bool_)):
                conds.append(bool(u == v))
            else:
                conds.append(True)
    return And(conds + [True])


# --------------------------------------------------------------------------- history freedom
def _solver_view(ctx, kind, est):
    "what the fitted estimator's solver saw / holds, as a flat list of scalars"
    if kind in ("trend", "spline", "vector", "vector_fc"):
        if ctx.sym:
            rg, sc = stubs.REGRESSION_LOG[-1], stubs.SCALER_LOG[-1]
            X = np.array(sc["output"], dtype=object) * np.array(sc["scale"], dtype=object)
            return list(np.ravel(X)) + list(np.ravel(rg["y"])) + (list(np.ravel(rg["w"])) if rg["w"] is not None else [])
        return list(np.ravel(est.coef_ if kind == "trend" else est.force_))
    if kind == "kneighbors":
        return list(np.ravel(est.tree_.points if ctx.sym else est.tree_.data)) + list(np.ravel(est.data_))
    if kind in ("linear", "cubic"):
        it = est.interpolator_
        return list(np.ravel(np.asarray(it.points, dtype=object))) + list(np.ravel(np.asarray(it.values, dtype=object)))
    raise ValueError(kind)


def _make(kind):
    with warnings.catch_warnings():
        warnings.simplefilter("ignore")
        return {
            "trend": lambda: vd.Trend(1),
            "spline": lambda: vd.Spline(damping=0.25),
            "vector": lambda: vd.VectorSpline2D(mindist=1.0, damping=0.25),
            "vector_fc": lambda: vd.VectorSpline2D(mindist=1.0, damping=0.25, force_coords=(np.array([0.1, 1.9, 2.2]), np.array([0.2, 2.2, 0.4]))),
            "kneighbors": lambda: vd.KNeighbors(k=2),
            "linear": lambda: vd.Linear(),
            "cubic": lambda: vd.Cubic(rescale=True),
        }[kind]()


def h_history(ctx):
    kind = ctx.cfg["kind"]
    stubs.reset_logs()
    stubs.SCALE_CONTRACT["exact"] = False
    eA = np.array([p[0] for p in LAYOUT])
    nA = np.array([p[1] for p in LAYOUT])
    eB = np.array([p[0] for p in LAYOUT_B])
    nB = np.array([p[1] for p in LAYOUT_B])
    dA, dB = ctx.reals("A", 4), ctx.reals("B", 4)
    dA2, dB2 = ctx.reals("AA", 4), ctx.reals("BB", 4)
    vec = kind.startswith("vector")
    q = (np.array([0.7, 1.9]), np.array([1.1, -0.4]))

    def fit(est, e, n, d, d2):
        with warnings.catch_warnings():
            warnings.simplefilter("ignore")
            return est.fit((e, n), (d, d2) if vec else d)

    used = _make(kind)
    fit(used, eA, nA, dA, dA2)
    fit(used, eB, nB, dB, dB2)
    v_used = _solver_view(ctx, kind, used)
    fresh = _make(kind)
    if kind == "vector":
        # documented memory: without force_coords the first fit's data coordinates stay the force locations
        ctx.claim("VectorSpline2D keeps the first fit's data coordinates as force locations", And([eq(a, b) for a, b in zip(list(used.force_coords[0]) + list(used.force_coords[1]), list(eA) + list(nA))]))
        fresh = vd.VectorSpline2D(mindist=1.0, damping=0.25, force_coords=(eA.copy(), nA.copy()))
    fit(fresh, eB, nB, dB, dB2)
    v_fresh = _solver_view(ctx, kind, fresh)
    ctx.claim("a refitted estimator hands its solver exactly what a fresh one fitted to the latest data does", And(len(v_used) == len(v_fresh), And([eq(a, b) if (E.is_sym(a) or E.is_sym(b)) else CBool(abs(float(a) - float(b)) <= 1e-7 * max(1.0, abs(float(b)))) for a, b in zip(v_used, v_fresh)] + [True])))
    if ctx.sym:
        names = set()
        for v in v_used:
            if E.is_sym(v):
                names |= _vars(E.T(v))
        ctx.claim("nothing of the first dataset survives the refit", not any(nm.startswith("A") for nm in names))
    ctx.claim("region_ follows the latest data", And([eq(a, b) for a, b in zip(used.region_, (eB.min(), eB.max(), nB.min(), nB.max()))]))
    # clone / get_params round trip behaves identically
    for how, twin in (("clone", clone(_make(kind))), ("get_params", _make(kind).__class__(**_make(kind).get_params()))):
        if kind == "vector":
            continue
        fit(twin, eB, nB, dB, dB2)
        v_twin = _solver_view(ctx, kind, twin)
        ctx.claim("estimators survive %s with identical behaviour" % how, And(len(v_twin) == len(v_fresh), And([eq(a, b) if (E.is_sym(a) or E.is_sym(b)) else CBool(abs(float(a) - float(b)) <= 1e-7 * max(1.0, abs(float(b)))) for a, b in zip(v_twin, v_fresh)] + [True])))


def _vars(t):
    out, seen, stack = set(), set(), [t]
    while stack:
        x = stack.pop()
        if x.get_id() in seen:
            continue
        seen.add(x.get_id())
        if z3.is_const(x) and x.decl().kind() == z3.Z3_OP_UNINTERPRETED:
            out.add(x.decl().name())
        stack.extend(x.children())
    return out


def _arrays_in(obj, depth=0):
    out = []
    if isinstance(obj, np.ndarray):
        out.append(obj)
    elif isinstance(obj, (tuple, list)) and depth < 3:
        for x in obj:
            out.extend(_arrays_in(x, depth + 1))
    return out


def h_no_aliasing(ctx):
    """nothing a fitted estimator stores shares memory with the caller's arrays (so later changes to those
    arrays cannot change its predictions), and fitting does not alter constructor parameters"""
    kind = ctx.cfg["kind"]
    stubs.reset_logs()
    stubs.SCALE_CONTRACT["exact"] = False
    e = np.array([p[0] for p in LAYOUT])
    n = np.array([p[1] for p in LAYOUT])
    d, d2, w = ctx.reals("d", 4), ctx.reals("dd", 4), ctx.reals("w", 4)
    for v in w:
        ctx.assume(v > 0)
    sh = tuple(ctx.cfg.get("shape", (4,)))
    inputs = [a.reshape(sh) for a in (e, n, d, d2, w)]
    e_, n_, d_, d2_, w_ = inputs
    est = _make(kind)
    before = {k: v for k, v in est.get_params().items()}
    with warnings.catch_warnings():
        warnings.simplefilter("ignore")
        if kind.startswith("vector"):
            est.fit((e_, n_), (d_, d2_), (w_, w_))
        elif kind in ("kneighbors", "linear", "cubic"):
            est.fit((e_, n_), d_)
        else:
            est.fit((e_, n_), d_, w_)
    stored = []
    for name, val in vars(est).items():
        for arr in _arrays_in(val):
            stored.append((name, arr))
    for name, arr in stored:
        for src in inputs:
            ctx.claim("fitted attribute does not alias an argument array", not np.shares_memory(arr, src) if arr.dtype == src.dtype or True else True)
    after = est.get_params()
    for k, v in before.items():
        if kind == "vector" and k == "force_coords":
            continue  # documented memory of VectorSpline2D
        ctx.claim("fit leaves the constructor parameters untouched", after[k] is v)


def h_not_fitted(ctx):
    q = (np.array([0.7, 1.9]), np.array([1.1, -0.4]))
    x = ctx.real("x")
    with warnings.catch_warnings():
        warnings.simplefilter("ignore")
        ests = {
            "Trend": vd.Trend(1),
            "Spline": vd.Spline(),
            "SplineCV": vd.SplineCV(),
            "VectorSpline2D": vd.VectorSpline2D(),
            "KNeighbors": vd.KNeighbors(),
            "Linear": vd.Linear(),
            "Cubic": vd.Cubic(),
            "Chain": vd.Chain([("t", vd.Trend(1))]),
            "Vector": vd.Vector([vd.Trend(1), vd.Trend(1)]),
        }
    for name, est in ests.items():
        try:
            est.predict((q[0] + x, q[1]))
            ctx.claim("%s: predicting before fitting is an error" % name, False)
        except NotFittedError:
            ctx.claim("%s: predicting before fitting is an error" % name, True)
        vec = name in ("VectorSpline2D", "Vector")
        dq = (np.array([1.0, 2.0]),) * 2 if vec else np.array([1.0, 2.0])
        for meth, call in (
            ("gridding", lambda: est.grid(region=(0, 1, 0, 1), shape=(2, 2))),
            ("scattering", lambda: est.scatter(region=(0, 1, 0, 1), size=3, random_state=0)),
            ("profiling", lambda: est.profile((0, 0), (1, 1), 3)),
            ("scoring", lambda: est.score(q, dq)),
        ):
            try:
                call()
                ctx.claim("%s: %s before fitting is an error" % (name, meth), False)
            except NotFittedError:
                ctx.claim("%s: %s before fitting is an error" % (name, meth), True)


def h_cv_leaves_estimator(ctx):
    "an estimator handed to cross_val_score (serial or delayed) is neither fitted nor re-parameterised by it"
    from sklearn.model_selection import KFold

    e = np.array([p[0] for p in LAYOUT] + [2.5, 0.9])
    n = np.array([p[1] for p in LAYOUT] + [1.0, 2.9])
    d = ctx.reals("d", 6)
    d2 = ctx.reals("dd", 6)
    for label, est, data in (("Trend", vd.Trend(1), d), ("VectorSpline2D", vd.VectorSpline2D(mindist=1.0), (d, d2)), ("UFGridder", UFGridder(ident=9), d)):
        before = {k: v for k, v in est.get_params().items()}
        for delayed in (False, True):
            with warnings.catch_warnings():
                warnings.simplefilter("ignore")
                scores = vd.cross_val_score(est, (e, n), data, cv=KFold(n_splits=2), scoring="neg_mean_squared_error", delayed=delayed)
                if delayed:
                    import dask

                    dask.compute(*scores, scheduler="synchronous")
            after = est.get_params()
            ctx.claim("%s: parameters unchanged by cross_val_score (delayed=%s)" % (label, delayed), set(after) == set(before) and all(after[k] is before[k] or (not hasattr(after[k], "__len__") and after[k] == before[k]) for k in before))
            try:
                est.predict((e, n))
                ctx.claim("%s: still unfitted after cross_val_score (delayed=%s): predict is an error" % (label, delayed), False)
            except NotFittedError:
                ctx.claim("%s: still unfitted after cross_val_score (delayed=%s): predict is an error" % (label, delayed), True)


# --------------------------------------------------------------------------- rejection with symbolic shapes
class ShapeOnly:
    "an array-like of which only the shape matters"

    def __init__(self, shape):
        self.shape = tuple(shape)
        self.ndim = len(self.shape)

    @property
    def size(self):
        s = 1
        for v in self.shape:
            s = s * v
        return s

    def ravel(self):
        return self

    def __array__(self, dtype=None, copy=None):
        out = np.empty((), dtype=object)
        out[()] = self
        return out


def _shape(ctx, name, rank, lo=1, hi=3):
    return tuple(ctx.integer("%s_%d" % (name, k), lo, hi) for k in range(rank))


def _mk(ctx, shape):
    if ctx.sym:
        return ShapeOnly(shape)
    return np.zeros(tuple(int(v) for v in shape))


def _tup_eq(a, b):
    if len(a) != len(b):
        return False
    return And([eq(x, y) for x, y in zip(a, b)] + [True])


def h_reject_fit_input(ctx):
    cfg = ctx.cfg
    ranks = cfg["ranks"]  # (coords, data, weights)
    se = _shape(ctx, "e", ranks[0])
    sn = _shape(ctx, "n", ranks[0])
    ncomp = cfg["ncomp"]
    sd = [_shape(ctx, "d%d" % c, ranks[1]) for c in range(ncomp)]
    nw = cfg["nweights"]
    sw = [_shape(ctx, "w%d" % c, ranks[2]) for c in range(nw)]
    coords = (_mk(ctx, se), _mk(ctx, sn))
    data = tuple(_mk(ctx, s) for s in sd)
    weights = tuple(_mk(ctx, s) for s in sw) if nw else None
    darg = data if ncomp > 1 else data[0]
    warg = None if weights is None else (weights if nw > 1 else weights[0])
    consistent_cd = And(_tup_eq(se, sn), And([_tup_eq(s, se) for s in sd]))
    if nw:
        counts_ok = nw == ncomp
        wshapes_ok = And([_tup_eq(sw[c], sd[c]) for c in range(min(nw, ncomp))] + [True]) if counts_ok else False
        consistent = And(consistent_cd, counts_ok, wshapes_ok)
        # known finding: weights with the data's size but another shape are accepted
        def _prod(t):
            p = 1
            for v in t:
                p = p * v
            return p

        size_only = And(consistent_cd, counts_ok, Not(wshapes_ok), And([eq(_prod(w), _prod(d)) for w in sw for d in sd])) if counts_ok else False
        ctx.known_class("C20-weights-size-not-shape", size_only)
    else:
        consistent = consistent_cd
    try:
        vbu.check_fit_input(coords, darg, warg)
        ctx.claim("accepted input has coordinates, data and weights of agreeing shapes and component counts", consistent)
    except ValueError:
        ctx.claim("only inconsistent input is rejected", Not(consistent))


def h_reject_misc(ctx):
    rk = ctx.cfg["rank"]
    s1, s2, s3 = _shape(ctx, "a", rk), _shape(ctx, "b", rk), _shape(ctx, "c", rk)
    arrs = (_mk(ctx, s1), _mk(ctx, s2), _mk(ctx, s3))
    try:
        vbu.check_coordinates(arrs)
        ctx.claim("check_coordinates accepts only equal shapes", And(_tup_eq(s1, s2), _tup_eq(s1, s3)))
    except ValueError:
        ctx.claim("check_coordinates rejects only differing shapes", Not(And(_tup_eq(s1, s2), _tup_eq(s1, s3))))
    # Vector / VectorSpline2D component counts
    e = np.array([0.0, 1.0, 2.0])
    d = ctx.reals("d", 3)
    for bad, f in (
        ("VectorSpline2D with one data component", lambda: vd.VectorSpline2D(mindist=1.0).fit((e, e[::-1].copy()), (d,))),
        ("VectorSpline2D with three data components", lambda: vd.VectorSpline2D(mindist=1.0).fit((e, e[::-1].copy()), (d, d, d))),
        ("Vector with data that is not a tuple", lambda: vd.Vector([vd.Trend(1), vd.Trend(1)]).fit((e, e[::-1].copy()), d)),
        ("two weights for one data array", lambda: vbu.check_fit_input((e, e), d, (d, d))),
        ("grid with both shape and spacing", lambda: vd.grid_coordinates((0, 1, 0, 1), shape=(2, 2), spacing=0.5)),
        ("grid with neither shape nor spacing", lambda: vd.grid_coordinates((0, 1, 0, 1))),
        ("BlockReduce input with mismatched data shape", lambda: vd.BlockReduce(np.mean, shape=(1, 1)).filter((e, e), np.zeros(4))),
    ):
        try:
            with warnings.catch_warnings():
                warnings.simplefilter("ignore")
                f()
            ctx.claim("rejected: %s" % bad, False)
        except ValueError:
            ctx.claim("rejected: %s" % bad, True)
    w, ee, s, n = ctx.real("W"), ctx.real("E"), ctx.real("S"), ctx.real("N")
    try:
        vd.grid_coordinates((w, ee, s, n), shape=(2, 2))
        ctx.claim("accepted regions are valid", And(le(w, ee), le(s, n)))
    except ValueError:
        ctx.claim("invalid regions (W > E or S > N) are rejected", Or(gt(w, ee), gt(s, n)))


def h_reject_entry_points(ctx):
    """one inconsistency between otherwise valid arguments, handed to each public entry point (not to the checking
    helpers): every one of them must raise ValueError instead of fitting, splitting or gridding something"""
    e = np.array([0.0, 1.0, 2.0])
    n = np.array([2.0, 0.5, 1.0])
    d3 = ctx.reals("d", 3)
    d4 = ctx.reals("dd", 4)
    X = np.transpose((e, n))
    fitted = vd.Trend(1).fit((e, n), d3)
    cases = (
        ("KNeighbors.fit: data longer than the coordinates", lambda: vd.KNeighbors().fit((e, n), d4)),
        ("Trend.fit: data longer than the coordinates", lambda: vd.Trend(1).fit((e, n), d4)),
        ("Spline.fit: data longer than the coordinates", lambda: vd.Spline().fit((e, n), d4)),
        ("Spline.fit: weights longer than the data", lambda: vd.Spline().fit((e, n), d3, weights=d4)),
        ("Spline.fit: coordinate arrays of different lengths", lambda: vd.Spline().fit((e, d4), d3)),
        ("Linear.fit: data longer than the coordinates", lambda: vd.Linear().fit((e, n), d4)),
        ("Cubic.fit: data longer than the coordinates", lambda: vd.Cubic().fit((e, n), d4)),
        ("Vector.fit: one component longer than the coordinates", lambda: vd.Vector([vd.Trend(1), vd.Trend(1)]).fit((e, n), (d3, d4))),
        ("VectorSpline2D.fit: one component longer than the coordinates", lambda: vd.VectorSpline2D().fit((e, n), (d3, d4))),
        ("Chain.fit: data longer than the coordinates", lambda: vd.Chain([("t", vd.Trend(1))]).fit((e, n), d4)),
        ("BlockMean.filter: data longer than the coordinates", lambda: vd.BlockMean(shape=(1, 1)).filter((e, n), d4)),
        ("BlockReduce.filter: weights longer than the data", lambda: vd.BlockReduce(_mean(ctx), shape=(1, 1)).filter((e, n), d3, weights=d4)),
        ("train_test_split: data longer than the coordinates", lambda: vd.train_test_split((e, n), d4)),
        ("cross_val_score: data longer than the coordinates", lambda: vd.cross_val_score(vd.Trend(1), (e, n), d4)),
        ("score: data longer than the coordinates", lambda: fitted.score((e, n), d4)),
        ("line_coordinates with neither size nor spacing", lambda: vd.line_coordinates(0, 1)),
        ("line_coordinates with both size and spacing", lambda: vd.line_coordinates(0, 1, size=3, spacing=0.5)),
        ("rolling_window with neither shape nor spacing", lambda: vd.rolling_window((e, n), size=1)),
        ("rolling_window with both shape and spacing", lambda: vd.rolling_window((e, n), size=1, spacing=1, shape=(2, 2))),
        ("BlockKFold with neither shape nor spacing", lambda: vd.BlockKFold()),
        ("BlockKFold with both shape and spacing (at the latest when splitting)", lambda: list(vd.BlockKFold(shape=(2, 2), spacing=1, n_splits=2).split(X))),
        ("BlockShuffleSplit with neither shape nor spacing", lambda: vd.BlockShuffleSplit()),
        ("BlockShuffleSplit with both shape and spacing (at the latest when splitting)", lambda: list(vd.BlockShuffleSplit(shape=(2, 2), spacing=1, n_splits=1, test_size=0.5).split(X))),
        ("BlockReduce with neither shape nor spacing", lambda: vd.BlockReduce(_mean(ctx)).filter((e, n), d3)),
        ("BlockReduce with both shape and spacing", lambda: vd.BlockReduce(_mean(ctx), shape=(1, 1), spacing=1).filter((e, n), d3)),
        ("train_test_split with both shape and spacing", lambda: vd.train_test_split((e, n), d3, shape=(1, 2), spacing=1)),
        ("block_split with neither shape nor spacing", lambda: vd.block_split((e, n))),
        ("gridder.grid with both shape and spacing", lambda: fitted.grid(shape=(2, 2), spacing=1)),
        ("scatter_points on a region with W > E", lambda: vd.scatter_points((1, 0, 0, 1), 3, random_state=0)),
        ("inside on a region with S > N", lambda: vd.inside((e, n), (0, 1, 1, 0))),
        ("block_split on a region with W > E", lambda: vd.block_split((e, n), shape=(1, 1), region=(1, 0, 0, 1))),
        ("gridder.grid on a region with S > N", lambda: fitted.grid(region=(0, 1, 1, 0), shape=(2, 2))),
        ("expanding_window: an extra coordinate longer than easting/northing", lambda: vd.expanding_window((e, n, d4), center=(1.0, 1.0), sizes=[1.0])),
        ("rolling_window: an extra coordinate longer than easting/northing", lambda: vd.rolling_window((e, n, d4), size=1.0, shape=(2, 2))),
        ("block_split: an extra coordinate longer than easting/northing", lambda: vd.block_split((e, n, d4), shape=(1, 2))),
        ("BlockReduce.filter: an extra coordinate longer than easting/northing", lambda: vd.BlockReduce(_mean(ctx), shape=(1, 1)).filter((e, n, d4), d3)),
        ("Spline.fit: an extra coordinate longer than easting/northing", lambda: vd.Spline().fit((e, n, d4), d3)),
        ("region with three entries", lambda: vd.grid_coordinates((0, 1, 0), shape=(2, 2))),
        ("region with five entries", lambda: vd.inside((e, n), (0, 1, 0, 1, 2))),
    )
    for bad, f in cases:
        try:
            with warnings.catch_warnings():
                warnings.simplefilter("ignore")
                f()
            ctx.claim("rejected: %s" % bad, False)
        except ValueError:
            ctx.claim("rejected: %s" % bad, True)


def _cfg_purity(tier, seed):
    class _C:
        sym = True

    names = list(_purity_cases(_C())[0].keys())
    heavy = {"BlockMean.filter", "median_distance"}
    return [{"case": n} for n in names if tier == "thorough" or n not in heavy]


HARNESSES = [
    Harness("purity_and_repeatability", h_purity, _cfg_purity, bounds="50 public callables / estimator method sequences on a concrete 4-point layout with symbolic data, weights, grids and Jacobians; every argument array read-only; each call repeated", stubs=["cKDTree / sklearn / scipy interpolators / scorer / RNG -> contract stubs", "block_split (inside block reductions) -> C08 contract"], extra_globals=_globals, engine={"oneshot": True, "keyed_sqrt": True}, outside="functions not listed in functions_encoded", timeout_s=900),
    Harness("history_freedom", h_history, lambda tier, seed: [{"kind": k} for k in ("trend", "spline", "vector", "vector_fc", "kneighbors", "linear", "cubic")], bounds="fit on dataset A then on dataset B (different concrete 4-point layouts, symbolic data) versus a fresh estimator fitted on B; clone and get_params round trips", stubs=["sklearn / cKDTree / scipy interpolators -> contract stubs"], extra_globals=_globals, engine={"oneshot": True}),
    Harness("no_aliasing", h_no_aliasing, lambda tier, seed: [{"kind": k, "shape": s} for k, s in (("trend", (4,)), ("spline", (4,)), ("spline", (2, 2)), ("vector", (4,)), ("vector_fc", (2, 2)), ("kneighbors", (4,)), ("kneighbors", (2, 2)), ("linear", (4,)))], bounds="every gridder fitted on a concrete 4-point layout (1-D and 2x2 contiguous arrays) with symbolic data and weights; all ndarray attributes (also inside tuples) of the fitted estimator", stubs=["sklearn / cKDTree / scipy interpolators -> contract stubs"], extra_globals=_globals, engine={"oneshot": True}),
    Harness("not_fitted", h_not_fitted, {"quick": [{}]}, bounds="9 gridders, symbolic query offset; predict, grid, scatter, profile, score", extra_globals=_globals),
    Harness(
        "reject_fit_input",
        h_reject_fit_input,
        lambda tier, seed: [{"ranks": (1, 1, 1), "ncomp": 1, "nweights": 1}, {"ranks": (2, 2, 2), "ncomp": 1, "nweights": 1}, {"ranks": (1, 1, 1), "ncomp": 2, "nweights": 0}, {"ranks": (1, 1, 1), "ncomp": 2, "nweights": 1}, {"ranks": (2, 1, 2), "ncomp": 1, "nweights": 1}] + ([{"ranks": (2, 2, 2), "ncomp": 2, "nweights": 2}, {"ranks": (2, 2, 1), "ncomp": 1, "nweights": 1}, {"ranks": (1, 2, 2), "ncomp": 1, "nweights": 0}] if tier == "thorough" else []),
        bounds="coordinates, data (1-2 components) and weights (0-2) of rank 1-2 with every dimension a symbolic integer in 1..3",
        stubs=["arrays reduced to their (symbolic) shape"],
    ),
    Harness("cross_val_leaves_estimator", h_cv_leaves_estimator, {"quick": [{}]}, bounds="Trend, VectorSpline2D and the recording gridder through cross_val_score (2 folds, serial and delayed) on 6 concrete points with symbolic data", stubs=["sklearn / scorer -> contract stubs"], extra_globals=_globals, engine={"oneshot": True}),
    Harness("reject_entry_points", h_reject_entry_points, {"quick": [{}]}, bounds="39 public entry points (estimator fit/score/filter, splitters, cross-validation, coordinate generators, region consumers), each given one inconsistency: a data/weight/coordinate array one element longer, both or neither of shape/size and spacing, a region with W > E, S > N or the wrong number of entries; symbolic data values", extra_globals=_globals),
    Harness("reject_misc", h_reject_misc, lambda tier, seed: [{"rank": 1}, {"rank": 2}], bounds="three coordinate arrays of symbolic shapes (rank 1-2, dims 1..3); component-count, shape/spacing and region errors with symbolic data and regions", extra_globals=_globals),
]
