"""C01 Exact interpolators reproduce the data at the data points.

Real functions executed: Spline.fit / predict / jacobian (numpy engine),
VectorSpline2D.fit / predict / jacobian, least_squares, KNeighbors.fit / predict,
Linear / Cubic fit and predict, Trend.fit / predict / jacobian, Chain and Vector
compositions, check_fit_input, n_1d_arrays, get_region."""
import warnings
from fractions import Fraction

import numpy as np

import verde as vd

from symx import stubs
from symx import engine as E
from symx.engine import And, Or, Not, Implies, eq, le, lt, ge, gt, CBool
from symx.harness import Harness

ASSUMPTIONS = [
    "the Green's-function matrix of each catalogued layout is computed by the real kernel in doubles, lifted exactly to rationals, and checked to be nonsingular with an exact rational determinant",
    "sklearn by contract (scale_j > 0; normal equations): with a nonsingular square system the solution is unique, so predict(data coords) = data is decided in linear real arithmetic",
    "OUT-FP: the 'tolerance proportional to the conditioning' clause is not decided here; the replay uses a tolerance of cond * 1e-12 relative to the data magnitude",
    "cKDTree and the scipy interpolators by contract (nearest neighbour; f(p_i) = v_i for distinct points)",
]

# catalogue of pairwise-distinct layouts: generic, collinear-but-distinct, widely different scales, large offsets
LAYOUTS = {
    "generic3": [(0.0, 0.0), (2.0, 0.5), (0.3, 1.7)],
    "generic4": [(0.0, 0.0), (2.0, 0.5), (0.3, 1.7), (1.5, 2.5)],
    "collinear3": [(0.0, 0.0), (1.0, 1.0), (3.0, 3.0)],
    "small_scale": [(0.01, 0.02), (0.05, 0.01), (0.03, 0.06), (0.07, 0.08)],
    "large_scale": [(1.0e5, 2.0e5), (6.0e5, 1.0e5), (3.0e5, 8.0e5), (9.0e5, 9.5e5)],
    "offset": [(1000.0, 2000.0), (1001.0, 2000.5), (1000.25, 2001.0), (1000.75, 2000.25)],
    "mixed": [(0.0, 0.0), (100.0, 0.01), (0.5, 50.0)],
}


def exact_det(mat):
    "determinant of a float matrix in exact rational arithmetic"
    a = [[Fraction(float(x)) for x in row] for row in np.asarray(mat, dtype=float)]
    n = len(a)
    det = Fraction(1)
    for c in range(n):
        piv = None
        for r in range(c, n):
            if a[r][c] != 0:
                piv = r
                break
        if piv is None:
            return Fraction(0)
        if piv != c:
            a[c], a[piv] = a[piv], a[c]
            det = -det
        det *= a[c][c]
        for r in range(c + 1, n):
            f = a[r][c] / a[c][c]
            if f:
                for k in range(c, n):
                    a[r][k] -= f * a[c][k]
    return det


def exact_det_frac(a):
    a = [list(row) for row in a]
    n = len(a)
    det = Fraction(1)
    for c in range(n):
        piv = next((r for r in range(c, n) if a[r][c] != 0), None)
        if piv is None:
            return Fraction(0)
        if piv != c:
            a[c], a[piv] = a[piv], a[c]
            det = -det
        det *= a[c][c]
        for r in range(c + 1, n):
            f = a[r][c] / a[c][c]
            if f:
                for k in range(c, n):
                    a[r][k] -= f * a[c][k]
    return det


def _globals(cfg):
    g = dict(stubs.regression_globals())
    g.update(stubs.interp_globals())
    g.update(stubs.kdtree_globals())
    return g


def _tol_eq(ctx, a, b, tol, mag):
    if ctx.sym:
        return eq(a, b)
    return CBool(abs(float(a) - float(b)) <= tol * max(1.0, mag))


def _coords(layout, sh):
    pts = LAYOUTS[layout]
    e = np.array([p[0] for p in pts]).reshape(sh)
    n = np.array([p[1] for p in pts]).reshape(sh)
    return e, n


def h_spline(ctx):
    cfg = ctx.cfg
    stubs.reset_logs()
    stubs.SCALE_CONTRACT["exact"] = False  # exactness holds for every positive column scale
    pts = LAYOUTS[cfg["layout"]]
    npts = len(pts)
    sh = tuple(cfg.get("shape", (npts,)))
    e, n = _coords(cfg["layout"], sh)
    with warnings.catch_warnings():
        warnings.simplefilter("ignore")
        fkw = {}
        if cfg.get("explicit_forces"):
            # forces at the data points, handed over explicitly (copies, in the data's shape)
            fkw["force_coords"] = (e.copy(), n.copy())
            if cfg["explicit_forces"] == "reversed":
                # the same locations listed in another order than the data: still one force per data point
                fkw["force_coords"] = (e.ravel()[::-1].copy(), n.ravel()[::-1].copy())
        if cfg["kind"] == "spline":
            est = vd.Spline(mindist=cfg.get("mindist"), **fkw)
            ncomp = 1
        else:
            est = vd.VectorSpline2D(poisson=cfg.get("poisson", 0.5), mindist=cfg.get("mindist", 1.0), **fkw)
            ncomp = 2
    jac = est.jacobian((e, n), (e.ravel(), n.ravel()))
    det = exact_det(jac)
    if det == 0:
        ctx.claim("layout has a nonsingular Green's-function matrix (precondition of the catalogue)", False)
        return
    cond = float(np.linalg.cond(np.asarray(jac, dtype=float)))
    data = [ctx.reals("d%d" % c, sh) for c in range(ncomp)]
    weights = None
    if cfg.get("weights"):
        weights = [ctx.reals("w%d" % c, sh) for c in range(ncomp)]
        for wc in weights:
            for v in wc.ravel():
                ctx.assume(v > 0)
    darg = tuple(data) if ncomp > 1 else data[0]
    warg = None if weights is None else (tuple(weights) if ncomp > 1 else weights[0])
    if cfg.get("first"):
        # history: the same estimator was fitted before, on another layout and other data
        e0, n0 = _coords(cfg["first"], (len(LAYOUTS[cfg["first"]]),))
        z = [ctx.reals("z%d" % c, len(LAYOUTS[cfg["first"]])) for c in range(ncomp)]
        with warnings.catch_warnings():
            warnings.simplefilter("ignore")
            est.fit((e0, n0), tuple(z) if ncomp > 1 else z[0])
    with warnings.catch_warnings():
        warnings.simplefilter("ignore")
        est.fit((e, n), darg, warg)
    fc = est.force_coords_ if cfg["kind"] == "spline" else est.force_coords
    if cfg.get("explicit_forces"):
        order = slice(None, None, -1) if cfg["explicit_forces"] == "reversed" else slice(None)
        ctx.claim("explicitly given force coordinates are used as given", And(len(fc) == 2, And([eq(a, b) for a, b in zip(np.ravel(fc[0]), e.ravel()[order])]), And([eq(a, b) for a, b in zip(np.ravel(fc[1]), n.ravel()[order])])))
    else:
        ctx.claim("forces are placed at the raveled data coordinates", And(len(fc) == 2, np.shape(fc[0]) == (npts,), And([eq(a, b) for a, b in zip(fc[0], e.ravel())]), And([eq(a, b) for a, b in zip(fc[1], n.ravel())])))
    ctx.claim("force coordinates are copies, not the caller's arrays", And(fc[0] is not e, fc[1] is not n, not np.shares_memory(np.asarray(fc[0], dtype=float), e), not np.shares_memory(np.asarray(fc[1], dtype=float), n)))
    pred = est.predict((e, n))
    preds = list(pred) if ncomp > 1 else [pred]
    mag = 1.0 if ctx.sym else max(abs(float(v)) for dc in data for v in dc.ravel())
    tol = max(1e-9, cond * 1e-12)
    for c in range(ncomp):
        ctx.claim("prediction at the data has the data's shape", np.shape(preds[c]) == sh)
        if np.shape(preds[c]) != sh:
            continue
        for idx in np.ndindex(*sh):
            ctx.claim("predicting at the data points returns the fitted values", _tol_eq(ctx, preds[c][idx], data[c][idx], tol, mag))


def h_kneighbors(ctx):
    cfg = ctx.cfg
    npts = cfg["npts"]
    sh = tuple(cfg.get("shape", (npts,)))
    e, n = ctx.reals("e", sh), ctx.reals("n", sh)
    ev, nv = e.ravel(), n.ravel()
    for i in range(npts):
        for j in range(i + 1, npts):
            ctx.assume(Or(Not(eq(ev[i], ev[j])), Not(eq(nv[i], nv[j]))) if ctx.sym else bool(ev[i] != ev[j] or nv[i] != nv[j]))
    d = ctx.reals("d", sh)
    if cfg.get("layout") == "F":
        d = np.asfortranarray(d)  # same logical contents, column-major memory
    elif cfg.get("layout") == "T":
        d = np.ascontiguousarray(d.T).T  # transposed view
    kn = vd.KNeighbors(k=1)
    kn.fit((e, n), d)
    pred = kn.predict((e, n))
    ctx.claim("prediction at the data has the data's shape", np.shape(pred) == sh)
    for idx in np.ndindex(*sh):
        ctx.claim("k=1: the nearest data point is the point itself", eq(pred[idx], d[idx]))
    ctx.claim("stored data are a copy", kn.data_ is not d)


def h_scipy(ctx):
    cfg = ctx.cfg
    pts = LAYOUTS[cfg["layout"]]
    npts = len(pts)
    sh = tuple(cfg.get("shape", (npts,)))
    e, n = _coords(cfg["layout"], sh)
    d = ctx.reals("d", sh)
    cls = {"linear": vd.Linear, "cubic": vd.Cubic}[cfg["kind"]]
    g = cls(rescale=cfg["rescale"])
    g.fit((e, n), d)
    pred = g.predict((e, n))
    ctx.claim("prediction at the data has the data's shape", np.shape(pred) == sh)
    mag = 1.0 if ctx.sym else max(abs(float(v)) for v in d.ravel())
    for idx in np.ndindex(*sh):
        ctx.claim("Linear/Cubic reproduce the data at the data points", _tol_eq(ctx, pred[idx], d[idx], 1e-7, mag))


def _poly_terms(deg):
    return [(i, j) for s in range(deg + 1) for j in range(s + 1) for i in [s - j]]


def _trend_layout(deg, seed):
    "unisolvent layout: points on a skewed lattice, (N+1)(N+2)/2 + 2 of them"
    m = (deg + 1) * (deg + 2) // 2 + 2
    pts = []
    k = 0
    while len(pts) < m:
        i, j = divmod(k, deg + 2)
        pts.append((float(i) + 0.25 * j + 0.125 * (k % 3), float(j) - 0.5 * i + 0.0625 * (k % 5)))
        k += 1
    return pts


def h_trend(ctx):
    cfg = ctx.cfg
    stubs.reset_logs()
    stubs.SCALE_CONTRACT["exact"] = False
    deg = cfg["degree"]
    pts = _trend_layout(deg, ctx.seed)
    e = np.array([p[0] for p in pts])
    n = np.array([p[1] for p in pts])
    terms = _poly_terms(deg)
    # rank check (exact): the normal matrix of the monomial design must be nonsingular
    design = np.array([[p[0] ** i * p[1] ** j for (i, j) in terms] for p in pts])
    if exact_det_frac(_gram(design)) == 0:
        ctx.claim("layout is unisolvent for the degree (precondition of the catalogue)", False)
        return
    low = cfg.get("poly_degree", deg)
    coefs = {t: (ctx.real("c_%d_%d" % t) if sum(t) <= low else 0) for t in terms}
    data = np.empty(len(pts), dtype=object if ctx.sym else float)
    for k, p in enumerate(pts):
        data[k] = sum(coefs[t] * (p[0] ** t[0] * p[1] ** t[1]) for t in terms)
    sh = tuple(cfg.get("shape", (len(pts),)))
    tr = vd.Trend(deg)
    if cfg.get("weights"):
        # any positive weights: the data are a polynomial exactly, so the weighted fit reproduces it too
        w = ctx.reals("w", len(pts))
        for v in w:
            ctx.assume(v > 0)
        tr.fit((e.reshape(sh), n.reshape(sh)), data.reshape(sh), w.reshape(sh))
    else:
        tr.fit((e.reshape(sh), n.reshape(sh)), data.reshape(sh))
    qe, qn = ctx.real("qe"), ctx.real("qn")
    q = np.empty((1, 1), dtype=object if ctx.sym else float)
    q[0, 0] = qe
    q2 = np.empty((1, 1), dtype=object if ctx.sym else float)
    q2[0, 0] = qn
    pred = tr.predict((q, q2))
    expect = sum(coefs[t] * qe ** t[0] * qn ** t[1] for t in terms)
    if ctx.sym:
        for c, t in zip(tr.coef_, terms):
            ctx.claim("fitted coefficients equal the polynomial's coefficients", eq(c, coefs[t]))
        ctx.claim("Trend of degree N reproduces any polynomial of degree <= N at every location", eq(pred[0, 0], expect))
    else:
        mag = sum(abs(float(coefs[t])) * abs(qe) ** t[0] * abs(qn) ** t[1] for t in terms)
        ctx.claim("Trend of degree N reproduces any polynomial of degree <= N at every location", CBool(abs(float(pred[0, 0]) - float(expect)) <= 1e-6 * max(1.0, mag)))


def _gram(design):
    "exact Gram matrix (Fractions) of a float design matrix"
    a = [[Fraction(float(x)) for x in row] for row in design]
    m = len(a[0])
    return [[sum(a[r][i] * a[r][j] for r in range(len(a))) for j in range(m)] for i in range(m)]


def h_compositions(ctx):
    cfg = ctx.cfg
    stubs.reset_logs()
    stubs.SCALE_CONTRACT["exact"] = False
    pts = LAYOUTS[cfg["layout"]]
    npts = len(pts)
    e, n = _coords(cfg["layout"], (npts,))
    with warnings.catch_warnings():
        warnings.simplefilter("ignore")
        if cfg["kind"] == "chain":
            d = ctx.reals("d", npts)
            # step names are labels only: two steps may carry the same one
            names = ("step", "step") if cfg.get("same_names") else ("trend", "spline")
            est = vd.Chain([(names[0], vd.Trend(1)), (names[1], vd.Spline())])
            est.fit((e, n), d)
            pred = est.predict((e, n))
            mag = 1.0 if ctx.sym else max(abs(float(v)) for v in d)
            for i in range(npts):
                ctx.claim("Chain(Trend, Spline) reproduces the data at the data points", _tol_eq(ctx, pred[i], d[i], 1e-6, mag))
        elif cfg["kind"] == "chain_kn":
            # 2x2 arrays with weights through Chain -> Trend.filter -> KNeighbors(k=1)
            d = ctx.reals("d", npts).reshape((2, 2))
            w = ctx.reals("w", npts).reshape((2, 2))
            for v in w.ravel():
                ctx.assume(v > 0)
            e2, n2 = e.reshape((2, 2)), n.reshape((2, 2))
            est = vd.Chain([("trend", vd.Trend(1)), ("nearest", vd.KNeighbors(k=1))])
            est.fit((e2, n2), d, w)
            pred = est.predict((e2, n2))
            ctx.claim("prediction has the data's shape", np.shape(pred) == (2, 2))
            mag = 1.0 if ctx.sym else max(abs(float(v)) for v in d.ravel())
            if np.shape(pred) == (2, 2):
                for idx in np.ndindex(2, 2):
                    ctx.claim("Chain(Trend, KNeighbors(k=1)) reproduces the data at the data points", _tol_eq(ctx, pred[idx], d[idx], 1e-6, mag))
        elif cfg["kind"] == "chain_vectors":
            # vector data through a Chain of Vectors: BaseGridder.filter with several components
            d0, d1 = ctx.reals("d0", npts), ctx.reals("d1", npts)
            est = vd.Chain([("first", vd.Vector([vd.Trend(1), vd.Trend(0)])), ("second", vd.Vector([vd.Linear(), vd.Cubic()]))])
            est.fit((e, n), (d0, d1))
            p0, p1 = est.predict((e, n))
            mag = 1.0 if ctx.sym else max(abs(float(v)) for v in list(d0) + list(d1))
            for i in range(npts):
                ctx.claim("Chain(Vector(Trend, Trend), Vector(Linear, Cubic)) reproduces each component at the data points", And(_tol_eq(ctx, p0[i], d0[i], 1e-6, mag), _tol_eq(ctx, p1[i], d1[i], 1e-6, mag)))
        else:
            d0, d1 = ctx.reals("d0", npts), ctx.reals("d1", npts)
            est = vd.Vector([vd.Spline(), vd.Linear()])
            est.fit((e, n), (d0, d1))
            p0, p1 = est.predict((e, n))
            mag = 1.0 if ctx.sym else max(abs(float(v)) for v in list(d0) + list(d1))
            for i in range(npts):
                ctx.claim("Vector(Spline, Linear) reproduces each component at the data points", And(_tol_eq(ctx, p0[i], d0[i], 1e-6, mag), _tol_eq(ctx, p1[i], d1[i], 1e-6, mag)))


def _cfg_spline(tier, seed):
    out = [
        {"kind": "spline", "layout": "generic4", "weights": True},
        {"kind": "spline", "layout": "collinear3"},
        {"kind": "spline", "layout": "large_scale", "shape": (2, 2)},
        {"kind": "spline", "layout": "offset", "mindist": 0.5},
        {"kind": "vector", "layout": "generic3", "poisson": 0.5, "mindist": 1.0},
        {"kind": "vector", "layout": "generic4", "poisson": -0.5, "mindist": 0.1, "weights": True, "shape": (2, 2)},
        {"kind": "spline", "layout": "generic4", "first": "offset"},
        {"kind": "spline", "layout": "generic3", "first": "generic4"},
        {"kind": "spline", "layout": "generic4", "explicit_forces": True, "shape": (2, 2)},
        {"kind": "vector", "layout": "generic4", "poisson": 0.25, "mindist": 0.5, "explicit_forces": True, "shape": (2, 2)},
        {"kind": "vector", "layout": "generic3", "poisson": 0.5, "mindist": 1.0, "explicit_forces": "reversed"},
        {"kind": "spline", "layout": "generic4", "explicit_forces": "reversed"},
    ]
    if tier == "thorough":
        for lay in LAYOUTS:
            out.append({"kind": "spline", "layout": lay})
            out.append({"kind": "vector", "layout": lay, "poisson": 1.0, "mindist": 10.0})
            out.append({"kind": "vector", "layout": lay, "poisson": -1.0, "mindist": 0.001})
    return out


def _cfg_scipy(tier, seed):
    lays = ["generic4"] if tier == "quick" else ["generic3", "generic4", "small_scale", "large_scale", "offset", "mixed"]
    return [{"kind": k, "rescale": r, "layout": l} for k in ("linear", "cubic") for r in (False, True) for l in lays] + [{"kind": "linear", "rescale": True, "layout": "generic4", "shape": (2, 2)}]


HARNESSES = [
    Harness(
        "spline_exact",
        h_spline,
        _cfg_spline,
        bounds="catalogue of concrete layouts of 3-4 pairwise-distinct points (generic, collinear, scales 1e-2..1e6, offset 1e3 x extent, 1-D and 2x2 arrays); symbolic data and positive weights; Spline (mindist 0 / 0.5) and VectorSpline2D (Poisson -1..1, mindist 1e-3..10)",
        stubs=["sklearn StandardScaler/LinearRegression -> contracts (any positive scale)"],
        extra_globals=_globals,
        engine={"oneshot": True},
        outside="OUT-FP (conditioning-proportional tolerance); layouts beyond the catalogue; numba engine",
    ),
    Harness(
        "kneighbors_k1",
        h_kneighbors,
        lambda tier, seed: [{"npts": 2}, {"npts": 3}, {"npts": 4, "shape": (2, 2), "layout": "F"}] + ([{"npts": 4, "shape": (2, 2)}, {"npts": 4, "shape": (2, 2), "layout": "T"}] if tier == "thorough" else []),
        bounds="2-3 (quick) / 4 (thorough) pairwise-distinct points with fully symbolic coordinates and data",
        stubs=["cKDTree -> nearest-neighbour contract"],
        extra_globals=_globals,
        engine={"oneshot": True},
        timeout_s=900,
    ),
    Harness("scipy_exact", h_scipy, _cfg_scipy, bounds="catalogue layouts, symbolic data, rescale on/off, 1-D and 2x2 arrays", stubs=["scipy interpolators -> uninterpreted function with f(p_i) = v_i for distinct points"], extra_globals=_globals),
    Harness(
        "trend_reproduces_polynomials",
        h_trend,
        lambda tier, seed: [{"degree": 0}, {"degree": 1}, {"degree": 2}, {"degree": 2, "poly_degree": 1}] + ([{"degree": 3}, {"degree": 3, "poly_degree": 1}, {"degree": 4}, {"degree": 4, "poly_degree": 2}] if tier == "thorough" else [{"degree": 3, "poly_degree": 2}]) + [{"degree": 1, "shape": (5, 1), "weights": True}, {"degree": 2, "shape": (2, 4)}],
        bounds="degree 0-3 (quick) / 0-4 (thorough) on a concrete unisolvent layout of (N+1)(N+2)/2 + 2 points (exact rank check) as 1-D, column or 2-D arrays; symbolic polynomial coefficients (full or lower degree), optional symbolic positive weights and a symbolic query point",
        stubs=["sklearn StandardScaler/LinearRegression -> contracts"],
        extra_globals=_globals,
        engine={"oneshot": True, "timeout_ms": 120000},
        timeout_s=900,
    ),
    Harness("compositions", h_compositions, {"quick": [{"kind": "chain", "layout": "generic4"}, {"kind": "chain", "layout": "generic4", "same_names": True}, {"kind": "vector", "layout": "generic4"}, {"kind": "chain_kn", "layout": "generic4"}, {"kind": "chain_vectors", "layout": "generic4"}]}, bounds="Chain(Trend(1), Spline), Vector(Spline, Linear), Chain(Trend(1), KNeighbors(1)) on 2x2 arrays with weights, Chain(Vector(Trend, Trend), Vector(Linear, Cubic)) on the generic 4-point layout with symbolic data", extra_globals=_globals, engine={"oneshot": True}),
]
