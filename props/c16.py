"""C16 Hull masking and grid projection keep values only where data constrain them.

Real functions executed: verde.mask.convexhull_mask, _get_grid_coordinates;
verde.projections.project_grid (with grid_to_table, get_region, shape_to_spacing,
Chain, BaseGridder.grid, grid_coordinates, make_xarray_grid, Linear);
real xarray / pandas. scipy's Delaunay is replaced by its hull-membership contract
on the points as passed (orientation predicates), or by a free oracle inside the
project_grid harness."""
import itertools
from fractions import Fraction

import numpy as np
import xarray as xr

import verde as vd

from symx import stubs
from symx import engine as E
from symx.engine import And, Or, Not, Implies, eq, le, lt, ge, gt, iff, CBool
from symx.harness import Harness

ASSUMPTIONS = [
    "Delaunay(P).find_simplex(q) != -1 if q is strictly inside the convex hull of P (as passed), -1 if strictly outside, free on the boundary (OUT-LIB: qhull); hull of 3-4 points as the union of the triangles of all triples",
    "sqrt is a constant keyed by its normalised argument with sqrt(x) >= 0 and x > 0 => sqrt(x) > 0 (the value of the standard deviation is irrelevant, only its sign)",
    "non-degenerate data (eastings not all equal, northings not all equal), as in the property",
    "project_grid: affine projections with concrete positive slopes and symbolic offsets; antialias=False; the Delaunay stub is a free oracle there (hull geometry is decided in the convexhull_mask harness); the interpolator is verde.Linear over the scipy contract f(p_i) = v_i",
]


def _globals(cfg):
    g = dict(stubs.delaunay_globals())
    g.update(stubs.interp_globals())
    g.update(stubs.kdtree_globals())
    return g


def _orient(a, b, c):
    return (b[0] - a[0]) * (c[1] - a[1]) - (b[1] - a[1]) * (c[0] - a[0])


def _hull_preds(pts, q):
    "strictly inside / strictly outside the hull of 3-4 points, on the caller's coordinates"
    ins, outs = [], []
    for a, b, c in itertools.combinations(pts, 3):
        o = _orient(a, b, c)
        o1, o2, o3 = _orient(a, b, q), _orient(b, c, q), _orient(c, a, q)
        ins.append(Or(And(gt(o, 0), gt(o1, 0), gt(o2, 0), gt(o3, 0)), And(lt(o, 0), lt(o1, 0), lt(o2, 0), lt(o3, 0))))
        outs.append(Or(eq(o, 0), And(gt(o, 0), Or(lt(o1, 0), lt(o2, 0), lt(o3, 0))), And(lt(o, 0), Or(gt(o1, 0), gt(o2, 0), gt(o3, 0)))))
    return Or(ins), And(outs)


def h_hull(ctx):
    cfg = ctx.cfg
    stubs.StubDelaunay.mode = "geometry"
    del stubs.DELAUNAY_LOG[:]
    npts = cfg["npts"]
    e, n = ctx.reals("e", npts), ctx.reals("n", npts)
    qsh = tuple(cfg["qshape"])
    qe, qn = ctx.reals("qe", qsh), ctx.reals("qn", qsh)
    pts = [(e[i], n[i]) for i in range(npts)]
    # non-degenerate data: some triple is not collinear; eastings not all equal, northings not all equal
    ctx.assume(Or([Not(eq(_orient(a, b, c), 0)) for a, b, c in itertools.combinations(pts, 3)]))
    ctx.assume(Or([Not(eq(e[0], v)) for v in e[1:]]))
    ctx.assume(Or([Not(eq(n[0], v)) for v in n[1:]]))
    if not ctx.sym:
        # replay: keep clear of the hull boundary by a relative margin (points on it may go either way)
        scale = max(1e-12, max(abs(float(v)) for v in list(e) + list(n) + list(qe.ravel()) + list(qn.ravel())))
        for idx in np.ndindex(*qsh):
            for a, b in itertools.combinations(pts, 2):
                if abs(float(_orient(a, b, (qe[idx], qn[idx])))) < 1e-6 * scale * scale:
                    ctx.assume(False)
    if cfg.get("proj"):
        # the same affine projection (concrete slopes of either sign, symbolic offsets) is applied to data and query
        # points; hull membership is judged on the projected points
        pa, pc = Fraction(cfg["proj"][0]), Fraction(cfg["proj"][1])
        pb, pd = ctx.real("pb"), ctx.real("pd")
        if not ctx.sym:
            pa, pc = float(pa), float(pc)
        mask = vd.convexhull_mask((e, n), coordinates=(qe, qn), projection=lambda x, y: (x * pa + pb, y * pc + pd))
        e, n, qe, qn = e * pa + pb, n * pc + pd, qe * pa + pb, qn * pc + pd
        pts = [(e[i], n[i]) for i in range(npts)]
    else:
        mask = vd.convexhull_mask((e, n), coordinates=(qe, qn))
    ctx.claim("mask has the shape of the query arrays", np.shape(mask) == qsh)
    if np.shape(mask) != qsh:
        return
    if ctx.sym:
        rec = stubs.DELAUNAY_LOG[-1]
        P = [(E.SymReal(E.T(p[0])), E.SymReal(E.T(p[1]))) for p in rec["points"]]
        Q = [(E.SymReal(E.T(x[0])), E.SymReal(E.T(x[1]))) for x in rec["queries"][0]]
        ctx.claim("the triangulation is built on one point per data point and queried once per query point", And(len(P) == npts, len(Q) == int(np.prod(qsh))))
        # normalisation certificate: orientation of the normalised points x sigma_e x sigma_n == orientation of the caller's points
        se = E.SymReal(E.T(e[0]) - E.T(e[1])) if False else None
        # sigma_e, sigma_n are recovered from the normalised points: (e_i - e_j) = sigma_e * (P_i.x - P_j.x)
        i0, j0 = 0, 1
        allq = list(zip(qe.ravel(), qn.ravel()))
        origs = pts + allq
        norms = P + Q
        # find the scale symbols: any pair with different eastings / northings
        sig_e = ctx.fresh_real("sigma_e")
        sig_n = ctx.fresh_real("sigma_n")
        ok = ctx.lemma("normalisation is one common positive scaling and shift per axis, applied to data and query points alike", True)
        lin = []
        for a in range(len(origs)):
            for b in range(a + 1, len(origs)):
                lin.append(eq(origs[a][0] - origs[b][0], sig_e * (norms[a][0] - norms[b][0])))
                lin.append(eq(origs[a][1] - origs[b][1], sig_n * (norms[a][1] - norms[b][1])))
        # existence of such sigma: sigma_e = std(e) > 0 is what verde divides by; define it through the first data pair that differs
        stds = _std_terms(e, n)
        ctx.lemma("standard deviations are positive for non-degenerate data", And(gt(stds[0], 0), gt(stds[1], 0)))
        E.ENGINE.add(E.to_term(eq(sig_e, stds[0])), E.to_term(eq(sig_n, stds[1])))
        for c in lin:
            ctx.lemma("data and query points are shifted and scaled by the same mean and standard deviation", c)
        for (ia, ib, ic) in itertools.combinations(range(len(origs)), 3):
            ctx.lemma("orientation certificate: orient(normalised) * sigma_e * sigma_n = orient(original)", eq(_orient(norms[ia], norms[ib], norms[ic]) * sig_e * sig_n, _orient(origs[ia], origs[ib], origs[ic])))
    for idx in np.ndindex(*qsh):
        inside, outside = _hull_preds(pts, (qe[idx], qn[idx]))
        m = bool(mask[idx])
        ctx.claim("mask is True strictly inside and False strictly outside the convex hull of the data points (any scale and offset)", Not(outside) if m else Not(inside))


def _std_terms(e, n):
    out = []
    for arr in (e, n):
        vals = list(arr)
        mean = sum(vals) / len(vals)
        var = sum((v - mean) * (v - mean) for v in vals) / len(vals)
        out.append(E.usqrt(var))
    return out


def h_hull_grid(ctx):
    "grid form = array form on the grid's meshgrid (concrete geometry, symbolic values)"
    cfg = ctx.cfg
    stubs.StubDelaunay.mode = "geometry"
    pts = cfg["points"]
    e = np.array([p[0] for p in pts])
    n = np.array([p[1] for p in pts])
    ge_ = np.array(cfg["east"], dtype=float)
    gn = np.array(cfg["north"], dtype=float)
    vals = ctx.reals("v", (len(gn), len(ge_)))
    dims = tuple(cfg.get("dims", ("northing", "easting")))
    grid = xr.Dataset({"scalars": (dims, vals)}, coords={dims[1]: ge_, dims[0]: gn})
    out = vd.convexhull_mask((e, n), grid=grid)
    ee, nn = np.meshgrid(ge_, gn)
    arr = vd.convexhull_mask((e, n), coordinates=(ee, nn))
    ctx.claim("grid form keeps dims and shape", And(tuple(out["scalars"].dims) == dims, out["scalars"].shape == (len(gn), len(ge_))))
    ov = out["scalars"].values
    for i in range(len(gn)):
        for j in range(len(ge_)):
            v = ov[i, j]
            isnan = (not E.is_sym(v)) and isinstance(v, (float, np.floating)) and v != v
            ctx.claim("grid form blanks exactly the cells where the array form is False", isnan == (not bool(arr[i, j])))
            if not isnan:
                ctx.claim("kept cells keep their value", eq(v, vals[i, j]))
            q = (Fraction(float(ge_[j])), Fraction(float(gn[i]))) if ctx.sym else (ge_[j], gn[i])
            P = [(Fraction(float(a)), Fraction(float(b))) for a, b in pts] if ctx.sym else pts
            inside, outside = _hull_preds(P, q)
            ctx.claim("cell (i, j) is judged at (easting[j], northing[i])", Not(outside) if bool(arr[i, j]) else Not(inside))
    try:
        vd.convexhull_mask((e, n))
        ctx.claim("neither coordinates nor grid rejected", False)
    except ValueError:
        ctx.claim("neither coordinates nor grid rejected", True)


def h_project_grid(ctx):
    cfg = ctx.cfg
    stubs.StubDelaunay.mode = "oracle"
    stubs.StubDelaunay.oracle_free = cfg.get("oracle_free")
    del stubs.DELAUNAY_LOG[:]
    del stubs.ORACLE_LOG[:]
    sh = tuple(cfg["shape"])
    x0, y0 = ctx.real("x0"), ctx.real("y0")
    dx, dy = ctx.real("dx"), ctx.real("dy")
    ctx.assume(dx > 0)
    ctx.assume(dy > 0)
    east = np.array([x0 + j * dx for j in range(sh[1])], dtype=object if ctx.sym else float)
    north = np.array([y0 + i * dy for i in range(sh[0])], dtype=object if ctx.sym else float)
    vals = ctx.reals("v", sh)
    hole = cfg.get("hole")
    if hole:
        vals = vals.astype(object) if ctx.sym else vals
        vals[tuple(hole)] = float("nan")
    name = cfg.get("name", "field")
    dims = ("northing", "easting")
    if cfg.get("transposed"):
        # stored as (easting, northing) and lazily transposed: same grid, values not C-contiguous
        grid = xr.DataArray(np.ascontiguousarray(vals.T), coords={"northing": north, "easting": east}, dims=("easting", "northing"), name=name).transpose("northing", "easting")
    else:
        grid = xr.DataArray(vals, coords={"northing": north, "easting": east}, dims=dims, name=name)
    a, c = Fraction(cfg["proj"][0]), Fraction(cfg["proj"][1])
    b, d = ctx.real("pb"), ctx.real("pd")
    if not ctx.sym:
        a, c = float(a), float(c)

    def projection(e, n):
        return e * a + b, n * c + d

    conc_rec = None
    if not ctx.sym:
        # replay: observe what reaches qhull through a pass-through subclass of the real Delaunay
        import verde.mask as vmask
        from scipy.spatial import Delaunay as RealDelaunay

        conc_rec = {"points": None, "queries": []}

        class RecDelaunay(RealDelaunay):
            def __init__(self, points, *a2, **k2):
                conc_rec["points"] = np.array(points, dtype=float).copy()
                RealDelaunay.__init__(self, points, *a2, **k2)

            def find_simplex(self, xi, *a2, **k2):
                conc_rec["queries"].append(np.array(xi, dtype=float).copy())
                return RealDelaunay.find_simplex(self, xi, *a2, **k2)

        vmask.Delaunay = RecDelaunay
    pgkw = {}
    out_sh = sh
    if cfg.get("region_arg"):
        # requested region (any valid region, not the projected data's bounding box) and, optionally, shape
        rw, re_, rs, rn = ctx.real("RW"), ctx.real("RE"), ctx.real("RS"), ctx.real("RN")
        ctx.assume(rw < re_)
        ctx.assume(rs < rn)
        # bound: the requested extent is between half and twice the projected data extent (keeps node counts small
        # should the spacing ever be derived from another region)
        dw, dh = (east[-1] - east[0]) * a, (north[-1] - north[0]) * c
        ctx.assume((re_ - rw) * 2 >= dw)
        ctx.assume(re_ - rw <= dw * 2)
        ctx.assume((rn - rs) * 2 >= dh)
        ctx.assume(rn - rs <= dh * 2)
        pgkw["region"] = (rw, re_, rs, rn)
        if cfg.get("shape_arg"):
            pgkw["shape"] = tuple(cfg["shape_arg"])
            out_sh = tuple(cfg["shape_arg"])
    try:
        out = vd.project_grid(grid, projection, method=vd.Linear(), antialias=False, **pgkw)
    finally:
        if not ctx.sym:
            vmask.Delaunay = RealDelaunay
    if cfg.get("region_arg"):
        ctx.claim("result is a DataArray with the input's name on the requested region with the requested (or the input's) shape", And(isinstance(out, xr.DataArray), out.name == (name if name is not None else "scalars"), tuple(out.dims) == dims, out.shape == out_sh))
        if out.shape == out_sh:
            for j in range(out_sh[1]):
                ctx.claim("easting nodes: regular grid of the requested region", eq(out.coords["easting"].values[j] * max(out_sh[1] - 1, 1), rw * max(out_sh[1] - 1, 1) + j * (re_ - rw)))
            for i in range(out_sh[0]):
                ctx.claim("northing nodes: regular grid of the requested region", eq(out.coords["northing"].values[i] * max(out_sh[0] - 1, 1), rs * max(out_sh[0] - 1, 1) + i * (rn - rs)))
        return
    ctx.claim("result is a DataArray with the input's name ('scalars' if unnamed), dims and shape", And(isinstance(out, xr.DataArray), out.name == (name if name is not None else "scalars"), tuple(out.dims) == dims, out.shape == sh))
    if out.shape != sh:
        return
    for j in range(sh[1]):
        ctx.claim("projected easting nodes: regular grid of the projected data region (= projection of the input nodes for an affine map)", eq(out.coords["easting"].values[j], east[j] * a + b))
    for i in range(sh[0]):
        ctx.claim("projected northing nodes", eq(out.coords["northing"].values[i], north[i] * c + d))
    ov = out.values
    if ctx.sym and not stubs.DELAUNAY_LOG:
        ctx.claim("the hull is taken over the projected cells that carry data, and tested at every projected grid node", False)
        return
    if ctx.sym:
        rec = stubs.DELAUNAY_LOG[-1]
        ndata = sh[0] * sh[1] - (1 if hole else 0)
        ctx.claim("the hull is taken over the projected cells that carry data, and tested at every projected grid node", And(len(rec["points"]) == ndata, len(rec["queries"]) == 1, len(rec["queries"][0]) == sh[0] * sh[1]))
        mask = stubs.ORACLE_LOG[-1] if stubs.ORACLE_LOG else None
        # the hull test works on the normalised *projected* data points and grid nodes: every point handed to
        # Delaunay differs from data point 0 by (projected difference) / (std of the projected data), per axis
        if len(rec["points"]) == ndata and len(rec["queries"]) == 1 and len(rec["queries"][0]) == sh[0] * sh[1]:
            cells = [(i, j) for i in range(sh[0]) for j in range(sh[1]) if not (hole and (i, j) == tuple(hole))]
            pe = [east[j] * a + b for (i, j) in cells]
            pn = [north[i] * c + d for (i, j) in cells]
            sig = _std_terms(pe, pn)
            P0 = rec["points"][0]
            for k in range(1, ndata):
                Pk = rec["points"][k]
                ctx.claim("hull built on the projected data points (common normalisation)", And(eq((E.SymReal(E.T(Pk[0])) - E.SymReal(E.T(P0[0]))) * sig[0], pe[k] - pe[0]), eq((E.SymReal(E.T(Pk[1])) - E.SymReal(E.T(P0[1]))) * sig[1], pn[k] - pn[0])))
            for q, (i, j) in enumerate((i, j) for i in range(sh[0]) for j in range(sh[1])):
                Qk = rec["queries"][0][q]
                ctx.claim("hull tested at the projected grid nodes with the same normalisation", And(eq((E.SymReal(E.T(Qk[0])) - E.SymReal(E.T(P0[0]))) * sig[0], (east[j] * a + b) - pe[0]), eq((E.SymReal(E.T(Qk[1])) - E.SymReal(E.T(P0[1]))) * sig[1], (north[i] * c + d) - pn[0])))
    else:
        mask = None
        ndata = sh[0] * sh[1] - (1 if hole else 0)
        pts_ok = conc_rec["points"] is not None and conc_rec["points"].shape == (ndata, 2) and len(conc_rec["queries"]) == 1 and conc_rec["queries"][0].shape == (sh[0] * sh[1], 2)
        ctx.claim("the hull is taken over the projected cells that carry data, and tested at every projected grid node", pts_ok)
        if pts_ok:
            cells = [(i, j) for i in range(sh[0]) for j in range(sh[1]) if not (hole and (i, j) == tuple(hole))]
            pe = np.array([east[j] * a + b for (i, j) in cells])
            pn = np.array([north[i] * c + d for (i, j) in cells])
            se, sn = pe.std(), pn.std()
            P, Q = conc_rec["points"], conc_rec["queries"][0]
            scale = max(1.0, float(np.abs(pe - pe[0]).max()), float(np.abs(pn - pn[0]).max()))
            for k in range(1, ndata):
                ctx.claim("hull built on the projected data points (common normalisation)", CBool(abs((P[k, 0] - P[0, 0]) * se - (pe[k] - pe[0])) <= 1e-6 * scale and abs((P[k, 1] - P[0, 1]) * sn - (pn[k] - pn[0])) <= 1e-6 * scale))
            for qi, (i, j) in enumerate((i, j) for i in range(sh[0]) for j in range(sh[1])):
                ctx.claim("hull tested at the projected grid nodes with the same normalisation", CBool(abs((Q[qi, 0] - P[0, 0]) * se - ((east[j] * a + b) - pe[0])) <= 1e-6 * scale and abs((Q[qi, 1] - P[0, 1]) * sn - ((north[i] * c + d) - pn[0])) <= 1e-6 * scale))
    for i in range(sh[0]):
        for j in range(sh[1]):
            v = ov[i, j]
            isnan = (not E.is_sym(v)) and isinstance(v, (float, np.floating)) and v != v
            if hole and (i, j) == tuple(hole):
                continue
            if not isnan:
                ctx.claim("without antialiasing an affine projection reproduces the original value at the projected node that carried data", eq(v, vals[i, j]) if ctx.sym else CBool(abs(float(v) - float(vals[i, j])) <= 1e-6 * max(1.0, abs(float(vals[i, j])))))
            if ctx.sym and mask is not None:
                ctx.claim("NaN exactly where the hull test says outside", isnan == (not mask[i * sh[1] + j]))
    for bad in (xr.Dataset({"a": grid}), grid.expand_dims("time")):
        try:
            vd.project_grid(bad, projection)
            ctx.claim("Dataset input and non-2-D input rejected", False)
        except ValueError:
            ctx.claim("Dataset input and non-2-D input rejected", True)


class _FakeChain:
    "stands in for verde.Chain inside project_grid: records the steps, the fit and the grid request"
    made = []

    def __init__(self, steps):
        self.steps = list(steps)
        self.fit_args = None
        self.grid_kw = None
        _FakeChain.made.append(self)

    def fit(self, coordinates, data, weights=None):
        self.fit_args = (coordinates, data, weights)
        return self

    def grid(self, **kw):
        self.grid_kw = dict(kw)
        names = kw.get("data_names") or ["scalars"]
        return xr.Dataset({names[0]: (("northing", "easting"), np.zeros((1, 1)))}, coords={"northing": [0.0], "easting": [0.0]})


def h_project_grid_wiring(ctx):
    """how project_grid assembles its pipeline, on a symbolic grid: which cells and coordinates are fitted, which
    reduction runs first when antialiasing, which interpolator a method string selects, which region and spacing the
    output grid is requested on, and what is masked. Chain / BlockReduce / interpolators / convexhull_mask are
    recorded, not run (their behaviour is C06, C09, C03/C15 and the hull harnesses)."""
    import verde.projections as vp

    cfg = ctx.cfg
    sh = tuple(cfg["shape"])
    x0, y0 = ctx.real("x0"), ctx.real("y0")
    dx, dy = ctx.real("dx"), ctx.real("dy")
    ctx.assume(dx > 0)
    ctx.assume(dy > 0)
    east = np.array([x0 + j * dx for j in range(sh[1])], dtype=object if ctx.sym else float)
    north = np.array([y0 + i * dy for i in range(sh[0])], dtype=object if ctx.sym else float)
    vals = ctx.reals("v", sh)
    hole = cfg.get("hole")
    if hole:
        vals = vals.astype(object) if ctx.sym else vals
        vals[tuple(hole)] = float("nan")
    name = cfg.get("name", "field")
    grid = xr.DataArray(vals, coords={"northing": north, "easting": east}, dims=("northing", "easting"), name=name)
    a, c = Fraction(cfg["proj"][0]), Fraction(cfg["proj"][1])
    b, d = ctx.real("pb"), ctx.real("pd")
    if not ctx.sym:
        a, c = float(a), float(c)

    def projection(e, n):
        return e * a + b, n * c + d

    kw = {}
    method = cfg.get("method", "default")
    inst = None
    if method == "instance":
        inst = vd.Linear()
        kw["method"] = inst
    elif method != "default":
        kw["method"] = method
    if cfg.get("antialias") is not None:
        kw["antialias"] = cfg["antialias"]
    antialias = cfg.get("antialias", True)  # documented default
    cells = [(i, j) for i in range(sh[0]) for j in range(sh[1]) if not (hole and (i, j) == tuple(hole))]
    pe = [east[j] * a + b for (i, j) in cells]
    pn = [north[i] * c + d for (i, j) in cells]
    data_region = (E.smin(pe), E.smax(pe), E.smin(pn), E.smax(pn))
    region = data_region
    if cfg.get("region_arg"):
        rw, re_, rs, rn = ctx.real("RW"), ctx.real("RE"), ctx.real("RS"), ctx.real("RN")
        ctx.assume(rw < re_)
        ctx.assume(rs < rn)
        kw["region"] = region = (rw, re_, rs, rn)
    shape = sh
    if cfg.get("shape_arg"):
        kw["shape"] = shape = tuple(cfg["shape_arg"])
    spacing = None
    if cfg.get("spacing_arg"):
        sp_n, sp_e = ctx.real("SPN"), ctx.real("SPE")
        ctx.assume(sp_n > 0)
        ctx.assume(sp_e > 0)
        kw["spacing"] = spacing = (sp_n, sp_e)
    hull_calls = []

    def fake_hull(data_coordinates, coordinates=None, grid=None, projection=None):
        hull_calls.append({"data_coordinates": data_coordinates, "coordinates": coordinates, "grid": grid, "projection": projection})
        return grid

    saved = (vp.Chain, vp.convexhull_mask)
    del _FakeChain.made[:]
    vp.Chain, vp.convexhull_mask = _FakeChain, fake_hull
    try:
        try:
            out = vd.project_grid(grid, projection, **kw)
        except ValueError:
            ctx.claim("only an unknown method name is refused", method == "bad")
            return
    finally:
        vp.Chain, vp.convexhull_mask = saved
    ctx.claim("an unknown method name is refused", method != "bad")
    ctx.claim("one pipeline is assembled, fitted once and gridded once", len(_FakeChain.made) == 1 and _FakeChain.made[0].fit_args is not None and _FakeChain.made[0].grid_kw is not None)
    if not (len(_FakeChain.made) == 1 and _FakeChain.made[0].fit_args is not None and _FakeChain.made[0].grid_kw is not None):
        return
    ch = _FakeChain.made[0]
    # -- steps
    want_cls = {"default": vd.Linear, "linear": vd.Linear, "nearest": vd.KNeighbors, "cubic": vd.Cubic, "instance": vd.Linear}[method]
    names = [s[0] for s in ch.steps]
    last = ch.steps[-1][1]
    ctx.claim("the last step is the interpolator the method selects (linear by default; linear/nearest/cubic by name; an instance as given)", And(type(last) is want_cls, (last is inst) if inst is not None else True))
    if antialias:
        ok = len(ch.steps) == 2 and isinstance(ch.steps[0][1], vd.BlockReduce)
        ctx.claim("with antialiasing (the default) exactly one blocked reduction runs before the interpolator", ok)
        if ok:
            br = ch.steps[0][1]
            ctx.claim("the antialiasing reduction is the mean", float(br.reduction(np.array([1.0, 2.0, 6.0]))) == 3.0 and float(br.reduction(np.array([-4.0, 1.0]))) == -1.5 and br.center_coordinates is False and br.adjust == "spacing")
            brr = br.region
            ctx.claim("antialiasing blocks tile the projected data's bounding box", brr is not None and len(brr) == 4 and And([eq(u, v) for u, v in zip(brr, data_region)]))
    else:
        ctx.claim("without antialiasing the interpolator is the only step", len(ch.steps) == 1)
    # -- fit
    fc, fd, fw = ch.fit_args
    ok = len(fc) == 2 and np.shape(fc[0]) == (len(cells),) and np.shape(fc[1]) == (len(cells),) and np.shape(fd) == (len(cells),)
    ctx.claim("the pipeline is fitted on the cells that carry data (one row per non-NaN cell), without weights", And(ok, fw is None))
    if ok:
        fdv = np.asarray(fd)
        ctx.claim("fitted rows: projected (easting, northing) of each data cell with that cell's value, row-major", And([And(eq(fc[0][k], pe[k]), eq(fc[1][k], pn[k]), eq(fdv[k], vals[cells[k]])) for k in range(len(cells))]))
    # -- output grid request
    g = ch.grid_kw
    greg = g.get("region")
    ctx.claim("the output grid is requested on the given region, else on the projected data's bounding box", greg is not None and len(greg) == 4 and And([eq(u, v) for u, v in zip(greg, region)]))
    gsp = g.get("spacing")
    if spacing is not None:
        want_sp = spacing
    else:
        want_sp = ((region[3] - region[2]) / (shape[0] - 1), (region[1] - region[0]) / (shape[1] - 1))
    ok = gsp is not None and np.shape(gsp) == (2,) and "shape" not in g
    ctx.claim("the output grid spacing is the requested one, else the spacing that puts the requested (or the input's) shape on the region, (s_north, s_east)", And(ok, And(eq(gsp[0], want_sp[0]), eq(gsp[1], want_sp[1])) if ok else False))
    ctx.claim("the output variable takes the input's name ('scalars' if unnamed)", list(g.get("data_names") or []) == [name if name is not None else "scalars"])
    if antialias and len(ch.steps) == 2 and isinstance(ch.steps[0][1], vd.BlockReduce):
        bsp = ch.steps[0][1].spacing
        ok = bsp is not None and np.shape(bsp) == (2,)
        ctx.claim("antialiasing blocks have the size of the output grid spacing", And(ok, And(eq(bsp[0], want_sp[0]), eq(bsp[1], want_sp[1])) if ok else False))
    # -- mask
    ok = len(hull_calls) == 1 and hull_calls[0]["grid"] is not None and hull_calls[0]["coordinates"] is None and hull_calls[0]["projection"] is None
    ctx.claim("the gridded result is masked once by the convex hull of the projected data cells", ok and hull_calls[0]["data_coordinates"] is fc or (ok and And([And(eq(hull_calls[0]["data_coordinates"][0][k], pe[k]), eq(hull_calls[0]["data_coordinates"][1][k], pn[k])) for k in range(len(cells))])))


def h_project_grid_antialias(ctx):
    "with antialiasing (blocked mean, then linear interpolation) values stay within the range of the input"
    cfg = ctx.cfg
    stubs.StubDelaunay.mode = "oracle"
    stubs.StubDelaunay.oracle_free = cfg.get("oracle_free", 0)
    del stubs.DELAUNAY_LOG[:]
    del stubs.ORACLE_LOG[:]
    sh = tuple(cfg["shape"])
    if cfg.get("geometry"):
        # bound: concrete grid geometry and projection offsets (which block every cell falls in is then decided
        # without forking); the values stay symbolic
        # (dyadic values: doubles carry them, and everything computed from them here, exactly)
        x0, y0, dx, dy, b, d = (float(Fraction(v)) for v in cfg["geometry"])
    else:
        x0, y0 = ctx.real("x0"), ctx.real("y0")
        dx, dy = ctx.real("dx"), ctx.real("dy")
        ctx.assume(dx > 0)
        ctx.assume(dy > 0)
        b, d = ctx.real("pb"), ctx.real("pd")
    east = np.array([x0 + j * dx for j in range(sh[1])], dtype=object if ctx.sym else float)
    north = np.array([y0 + i * dy for i in range(sh[0])], dtype=object if ctx.sym else float)
    vals = ctx.reals("v", sh)
    grid = xr.DataArray(vals, coords={"northing": north, "easting": east}, dims=("northing", "easting"), name="field")
    a, c = Fraction(cfg["proj"][0]), Fraction(cfg["proj"][1])
    if not ctx.sym or cfg.get("geometry"):
        a, c = float(a), float(c)

    def projection(e, n):
        return e * a + b, n * c + d

    out = vd.project_grid(grid, projection, method="linear", antialias=True)
    ctx.claim("result keeps name, dims and shape with antialiasing", And(out.name == "field", tuple(out.dims) == ("northing", "easting"), out.shape == sh))
    flat = list(vals.ravel())
    lo, hi = E.smin(flat), E.smax(flat)
    for v in out.values.ravel():
        isnan = (not E.is_sym(v)) and isinstance(v, (float, np.floating)) and v != v
        if not isnan:
            ctx.claim("with antialiasing every value stays within the range of the input", And(ge(v, lo), le(v, hi)) if ctx.sym else CBool(float(lo) - 1e-9 * max(1.0, abs(float(lo))) <= float(v) <= float(hi) + 1e-9 * max(1.0, abs(float(hi)))))


def _aa_globals(cfg):
    g = dict(_globals(cfg))
    g[("verde.blockreduce", "block_split")] = stubs.BlockSplitContract()
    return g


def _cfg_pg(tier, seed):
    q = [{"shape": (2, 2), "proj": ("2", "3")}, {"shape": (2, 3), "proj": ("1/2", "5"), "oracle_free": 2}, {"shape": (2, 3), "proj": ("3", "2"), "oracle_free": 1, "transposed": True}, {"shape": (2, 3), "proj": ("2", "3"), "oracle_free": 0, "region_arg": True}, {"shape": (2, 2), "proj": ("2", "3"), "oracle_free": 0, "region_arg": True, "shape_arg": (3, 2)}]
    if tier == "quick":
        return q
    return q + [{"shape": (2, 3), "proj": ("1/2", "5"), "name": None, "oracle_free": 2}, {"shape": (2, 3), "proj": ("2", "3"), "hole": (0, 1), "oracle_free": 3}, {"shape": (3, 3), "proj": ("7", "1/3"), "oracle_free": 2}]


HARNESSES = [
    Harness(
        "project_grid",
        h_project_grid,
        _cfg_pg,
        bounds="2x2 (quick) / 2x3, 2x3 with one NaN hole, 3x3 (thorough) grid in real xarray with symbolic origin, positive steps and values; affine projection with concrete positive slopes and symbolic offsets; antialias=False; method=Linear over the scipy contract; every inside/outside pattern of the hull oracle forked",
        stubs=["scipy.spatial.Delaunay -> free oracle with recorded arguments", "scipy LinearNDInterpolator -> uninterpreted function with f(p_i) = v_i"],
        extra_globals=_globals,
        engine={"oneshot": True, "keyed_sqrt": True, "sqrt_pos_axiom": True, "div_elim": True, "timeout_ms": 60000},
        outside="the antialias range claim and the three real interpolation methods (scipy / kd-tree numerics), non-linear projections, OUT-FP, OUT-LIB (qhull)",
        timeout_s=1200,
    ),
    Harness(
        "project_grid_wiring",
        h_project_grid_wiring,
        lambda tier, seed: [
            {"shape": (2, 2), "proj": ("2", "3")},
            {"shape": (2, 3), "proj": ("-2", "1/2"), "method": "nearest", "antialias": True, "hole": (0, 1)},
            {"shape": (3, 2), "proj": ("1/2", "-1"), "method": "cubic", "antialias": False, "region_arg": True, "name": None},
            {"shape": (2, 2), "proj": ("2", "3"), "method": "linear", "spacing_arg": True, "region_arg": True},
            {"shape": (2, 3), "proj": ("3", "2"), "method": "instance", "shape_arg": (3, 2)},
            {"shape": (2, 2), "proj": ("2", "3"), "method": "bad"},
        ],
        bounds="2x2 / 2x3 / 3x2 symbolic grid (origin, positive steps, values; optional NaN hole), affine projection with concrete slopes of either sign and symbolic offsets; method default / 'linear' / 'nearest' / 'cubic' / instance / unknown; antialias default / True / False; optional symbolic region, spacing, concrete shape",
        stubs=["verde.projections.Chain -> recorder (steps, fit arguments, grid request)", "verde.projections.convexhull_mask -> recorder"],
        engine={"oneshot": True},
        outside="what the recorded pipeline computes (C06 chain plumbing, C09 block mean, interpolators, hull harnesses)",
    ),
    Harness(
        "project_grid_antialias",
        h_project_grid_antialias,
        lambda tier, seed: [{"shape": (3, 3), "proj": ("2", "3"), "geometry": ("1/2", "-3", "3/2", "2", "7", "-1")}] if tier == "thorough" else [],
        bounds="thorough tier only (about 5 minutes): 3x3 grid with concrete geometry (origin, steps, projection offsets) and symbolic values, affine projection, method='linear', antialias=True (real BlockReduce with block_split by the C08 contract), hull oracle fixed to 'inside'",
        stubs=["LinearNDInterpolator -> uninterpreted with f(p_i) = v_i and min(values) <= f <= max(values)", "block_split -> C08 contract", "Delaunay -> oracle"],
        extra_globals=_aa_globals,
        engine={"oneshot": True, "keyed_sqrt": True, "sqrt_pos_axiom": True, "div_elim": True, "timeout_ms": 60000},
        outside="cubic / nearest with antialiasing; OUT-LIB",
        timeout_s=2400,
    ),
    Harness(
        "convexhull_mask",
        h_hull,
        lambda tier, seed: [{"npts": 3, "qshape": (1,)}, {"npts": 3, "qshape": (1,), "proj": ("2", "-1/2")}] + ([{"npts": 3, "qshape": (1, 2)}, {"npts": 3, "qshape": (2, 1), "proj": ("-1", "3")}] if tier == "thorough" else []),
        bounds="3 fully symbolic data points (any scale and offset, non-degenerate) and 1-2 fully symbolic query points; optional affine projection (concrete slopes of either sign, symbolic offsets) of data and query points alike",
        stubs=["scipy.spatial.Delaunay -> hull-membership contract on the points as passed"],
        extra_globals=_globals,
        engine={"oneshot": True, "keyed_sqrt": True, "sqrt_pos_axiom": True, "div_elim": True, "timeout_ms": 60000},
        outside="points on the hull boundary; more than 3 symbolic data points (4 symbolic points: the orientation certificate times out at 60 s per query; a concrete 4-point hull is in convexhull_mask_grid); OUT-LIB (qhull)",
        timeout_s=1200,
    ),
    Harness(
        "convexhull_mask_grid",
        h_hull_grid,
        lambda tier, seed: [{"points": [(0.0, 0.0), (4.0, 0.5), (1.0, 3.0)], "east": [0.5, 1.5, 3.9], "north": [0.4, 2.0]}] + ([{"points": [(0.0, 0.0), (4.0, 0.5), (1.0, 3.0), (3.5, 3.5)], "east": [0.5, 3.0], "north": [0.4, 2.0, 3.4], "dims": ("lat", "lon")}] if tier == "thorough" else []),
        bounds="concrete 3-4 point hull and a concrete non-square grid (2x3 / 3x2) with symbolic values",
        stubs=["scipy.spatial.Delaunay -> hull-membership contract"],
        extra_globals=_globals,
        engine={"oneshot": True, "keyed_sqrt": True},
    ),
]
