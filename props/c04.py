"""C04 Gridding results do not depend on array layout, point order or dtype.

Real functions executed: n_1d_arrays, check_fit_input and the fit/predict glue of
Trend, Spline, VectorSpline2D, KNeighbors and Linear (with least_squares, the
kd-tree and the scipy interpolators observed through recorders / contract stubs);
Spline / Trend / VectorSpline2D / KNeighbors fits on concrete layouts for the
permutation and linearity relations."""
import itertools
import sys
import warnings
from fractions import Fraction

import numpy as np
import pandas as pd
import z3

import verde as vd
import verde.base.least_squares  # noqa: F401

from symx import stubs, npx
from symx import engine as E
from symx.engine import And, Or, Not, Implies, eq, le, lt, ge, gt, CBool
from symx.harness import Harness

LSQ = sys.modules["verde.base.least_squares"]
ASSUMPTIONS = [
    "layout: the solver/interpolator/kd-tree receive element-wise equal arguments for every presentation of the same element sequence, hence (congruence) equal predictions",
    "permutation/linearity: concrete layouts with an exactly nonsingular system, sklearn by contract; Linear's own invariance is scipy's (OUT-LIB): only the pairing of points and values is claimed",
    "dtype: numpy casting is modelled for the allocation idioms in the source (typed buffer: storing a real into an integer buffer truncates, in-place float += into an integer buffer raises); every model counterexample is replayed on real numpy with int64 arrays",
    "OUT-FP: 'up to solver round-off'",
]


class _LsqRecorder:
    def __init__(self, sym):
        self.calls = []
        self.sym = sym

    def __call__(self, jacobian, data, weights, damping=None, copy_jacobian=False):
        self.calls.append((np.array(jacobian, dtype=object).copy(), np.array(np.ravel(data), dtype=object).copy(), None if weights is None else np.array(np.ravel(weights), dtype=object).copy()))
        if not self.sym:
            return LSQ.least_squares(jacobian, data, weights, damping=damping, copy_jacobian=copy_jacobian)
        out = np.empty(np.shape(jacobian)[1], dtype=object)
        for j in range(out.size):
            out[j] = E.SymReal(z3.Real("param_%d" % j))  # same symbols for every presentation (equal arguments => equal result)
        return out


def _solver_calls(ctx, fit):
    """run a fit and return what reached the scaler (the unscaled design matrix) and the regression
    (data, sample weights), observed below verde.base.least_squares: through the contract stubs in the
    symbolic run, through recording subclasses of the real sklearn classes in the replay"""
    if ctx.sym:
        n0 = len(stubs.REGRESSION_LOG)
        est = fit()
        n = len(stubs.REGRESSION_LOG) - n0
        if n != 1:
            return {"est": est, "n": n, "rec": None}
        sc, rg = stubs.SCALER_LOG[-1], stubs.REGRESSION_LOG[-1]
        # the stub scales in place for copy=False: undo with the recorded scale
        X = np.array(sc["output"], dtype=object) * np.array(sc["scale"], dtype=object)
        return {"est": est, "n": 1, "rec": (X, np.array(rg["y"], dtype=object), None if rg["w"] is None else np.array(rg["w"], dtype=object))}
    from sklearn.linear_model import LinearRegression, Ridge
    from sklearn.preprocessing import StandardScaler

    log = {"X": [], "fits": []}

    class RecScaler(StandardScaler):
        def fit_transform(self, X, y=None, **kw):
            log["X"].append(np.array(X, dtype=float).copy())
            return super().fit_transform(X, y, **kw)

    class RecLR(LinearRegression):
        def fit(self, X, y, sample_weight=None):
            log["fits"].append((np.array(y, dtype=float).copy(), None if sample_weight is None else np.array(sample_weight, dtype=float).copy()))
            return super().fit(X, y, sample_weight=sample_weight)

    class RecRidge(Ridge):
        def fit(self, X, y, sample_weight=None):
            log["fits"].append((np.array(y, dtype=float).copy(), None if sample_weight is None else np.array(sample_weight, dtype=float).copy()))
            return super().fit(X, y, sample_weight=sample_weight)

    old = (LSQ.StandardScaler, LSQ.LinearRegression, LSQ.Ridge)
    LSQ.StandardScaler, LSQ.LinearRegression, LSQ.Ridge = RecScaler, RecLR, RecRidge
    try:
        est = fit()
    finally:
        LSQ.StandardScaler, LSQ.LinearRegression, LSQ.Ridge = old
    if len(log["fits"]) != 1:
        return {"est": est, "n": len(log["fits"]), "rec": None}
    return {"est": est, "n": 1, "rec": (log["X"][0], log["fits"][0][0], log["fits"][0][1])}


def _presentations(arr4, ctx):
    "the same 4-element sequence as 1-D, 2x2 C order, 2x2 Fortran order, a strided view and a pandas Series"
    sym = any(E.is_sym(v) for v in arr4)
    base = np.array(list(arr4), dtype=object if sym else float)
    pad = np.empty(8, dtype=base.dtype)
    pad[::2] = base
    pad[1::2] = base[::-1]
    return {
        "1d": base.copy(),
        "2x2 C": base.reshape((2, 2)).copy(),
        "2x2 F": np.asfortranarray(base.reshape((2, 2))),
        "strided view": pad[::2],
        "pandas Series": pd.Series(base.copy()),
    }


def _globals(cfg):
    g = dict(stubs.regression_globals())
    g.update(stubs.interp_globals())
    g.update(stubs.kdtree_globals())
    return g


LAYOUT4 = [(0.0, 0.0), (2.0, 0.5), (0.3, 1.7), (1.5, 2.5)]


def h_layout(ctx):
    cfg = ctx.cfg
    kind = cfg["kind"]
    stubs.reset_logs()
    if kind == "trend":
        ev, nv = list(ctx.reals("e", 4)), list(ctx.reals("n", 4))
    else:
        ev, nv = [p[0] for p in LAYOUT4], [p[1] for p in LAYOUT4]
    dv = list(ctx.reals("d", 4))
    d2v = list(ctx.reals("dd", 4))
    wv = list(ctx.reals("w", 4))
    for v in wv:
        ctx.assume(v > 0)
    xv = list(ctx.reals("x", 4))
    P = {k: _presentations(v, ctx) for k, v in (("e", ev), ("n", nv), ("d", dv), ("dd", d2v), ("w", wv), ("x", xv))}
    modname = {"trend": "verde.trend", "spline": "verde.spline", "vector": "verde.vector"}.get(kind)
    records = {}
    shapes = {}
    if kind == "trend":
        qe = ctx.reals("qe", (1, 3))
        qn = ctx.reals("qn", (1, 3))
    else:
        # the kernels / neighbour search only fix the shape here; their values are C03's and C15's claims
        qe = np.array([[0.4, 1.1, 2.2]])
        qn = np.array([[0.9, 0.2, 1.4]])
    for pres in P["e"]:
        e, n, d, dd, w, x = (P[k][pres] for k in ("e", "n", "d", "dd", "w", "x"))
        coords = (e, n, x) if cfg.get("extra") else (e, n)
        with warnings.catch_warnings():
            warnings.simplefilter("ignore")
            if modname:
                calls = _solver_calls(ctx, lambda: (vd.Trend(1).fit(coords, d, w) if kind == "trend" else vd.Spline().fit(coords, d, w) if kind == "spline" else vd.VectorSpline2D(mindist=1.0).fit(coords, (d, dd), (w, w))))
                est = calls.pop("est")
                records[pres] = calls["rec"]
                ctx.claim("fit calls the solver once", calls["n"] == 1)
            elif kind == "kneighbors":
                est = vd.KNeighbors(k=2).fit(coords, d)
                records[pres] = (np.array(est.tree_.data if not ctx.sym else est.tree_.points, dtype=object), np.array(est.data_, dtype=object), None)
            else:
                est = vd.Linear().fit(coords, d)
                it = est.interpolator_
                records[pres] = (np.array(it.points, dtype=object), np.array(it.values, dtype=object).ravel(), None)
            pred = est.predict((qe, qn) + ((qe,) if cfg.get("extra") else ()))
        preds = list(pred) if isinstance(pred, tuple) else [pred]
        shapes[pres] = [np.shape(p) for p in preds]
        ctx.claim("prediction has the (broadcast) shape of the query easting/northing", all(s == (1, 3) for s in shapes[pres]))
        sc = est.predict((ctx.cfg.get("scalar_e", 0.25), 1.5))
        scs = list(sc) if isinstance(sc, tuple) else [sc]
        ctx.claim("scalar query gives a 0-d result", all(np.shape(s) == () for s in scs))
    base = records["1d"]
    for pres, r in records.items():
        if pres == "1d" or r is None or base is None:
            continue
        for k, what in enumerate(("design matrix / points", "data", "weights")):
            a, b = base[k], r[k]
            if a is None or b is None:
                ctx.claim("%s handed to the solver identical for every presentation" % what, a is None and b is None)
                continue
            ctx.claim("%s handed to the solver have the same shape for every presentation" % what, np.shape(a) == np.shape(b))
            if np.shape(a) == np.shape(b):
                ctx.claim("%s handed to the solver are element-wise equal for every presentation (1-D, 2x2 C, 2x2 Fortran, strided view, pandas Series, extra coordinate)" % what, And([eq(u, v) for u, v in zip(np.ravel(a), np.ravel(b))] + [True]))


def _exact_nonsingular(jac):
    from props.c01 import exact_det

    return exact_det(jac) != 0


def h_permutation(ctx):
    cfg = ctx.cfg
    kind = cfg["kind"]
    stubs.reset_logs()
    stubs.SCALE_CONTRACT["exact"] = False
    pts = LAYOUT4[: cfg.get("npts", 4)]
    npts = len(pts)
    e = np.array([p[0] for p in pts])
    n = np.array([p[1] for p in pts])
    d = ctx.reals("d", npts)
    perms = cfg["perms"]
    with warnings.catch_warnings():
        warnings.simplefilter("ignore")
        if kind in ("spline", "vector"):
            def make():
                return vd.Spline() if kind == "spline" else vd.VectorSpline2D(mindist=1.0, poisson=0.25)
            dd = ctx.reals("dd", npts)
            jac = make().jacobian((e, n), (e, n))
            if not _exact_nonsingular(jac):
                ctx.claim("catalogue layout is nonsingular", False)
                return
            base = make().fit((e, n), d if kind == "spline" else (d, dd))
            for perm in perms:
                p = list(perm)
                est = make().fit((e[p], n[p]), d[p] if kind == "spline" else (d[p], dd[p]))
                nf = npts
                for k in range(npts):
                    if ctx.sym:
                        ctx.claim("reordering the data points permutes the forces accordingly (prediction unchanged)", eq(est.force_[k], base.force_[p[k]]))
                        if kind == "vector":
                            ctx.claim("reordering permutes the north forces too", eq(est.force_[nf + k], base.force_[nf + p[k]]))
                q = (np.array([0.7, 1.9]), np.array([1.1, -0.4]))
                pb, pp = base.predict(q), est.predict(q)
                pb = list(pb) if isinstance(pb, tuple) else [pb]
                pp = list(pp) if isinstance(pp, tuple) else [pp]
                mag = 1.0 if ctx.sym else max(abs(float(v)) for v in d)
                for a, b in zip(pb, pp):
                    for u, v in zip(a, b):
                        ctx.claim("prediction unchanged by reordering the data points", eq(u, v) if ctx.sym else CBool(abs(float(u) - float(v)) <= 1e-6 * max(1.0, mag)))
        elif kind == "trend":
            base = vd.Trend(1).fit((e, n), d)
            for perm in perms:
                p = list(perm)
                est = vd.Trend(1).fit((e[p], n[p]), d[p])
                mag = 1.0 if ctx.sym else max(abs(float(v)) for v in d)
                for a, b in zip(base.coef_, est.coef_):
                    ctx.claim("trend coefficients unchanged by reordering the data points", eq(a, b) if ctx.sym else CBool(abs(float(a) - float(b)) <= 1e-7 * max(1.0, mag)))
        elif kind == "kneighbors":
            qe, qn = ctx.real("qe"), ctx.real("qn")
            mk = lambda: vd.KNeighbors(k=cfg.get("k", 2))  # noqa: E731
            q = (np.array([qe], dtype=object if ctx.sym else float), np.array([qn], dtype=object if ctx.sym else float))
            # general position: the query is equidistant from no two data points
            for i in range(npts):
                for j in range(i + 1, npts):
                    di = (qe - e[i]) ** 2 + (qn - n[i]) ** 2
                    dj = (qe - e[j]) ** 2 + (qn - n[j]) ** 2
                    ctx.assume(Not(eq(di, dj)) if ctx.sym else bool(abs(di - dj) > 1e-9))
            base = mk().fit((e, n), d).predict(q)
            for perm in perms:
                p = list(perm)
                pr = mk().fit((e[p], n[p]), d[p]).predict(q)
                ctx.claim("nearest-neighbour mean unchanged by reordering the data points", eq(pr[0], base[0]))
        else:
            base = vd.Linear().fit((e, n), d).interpolator_
            key = lambda it: sorted((float(a), float(b), E.T(v).sexpr() if ctx.sym else float(v)) for (a, b), v in zip(np.asarray(it.points), np.ravel(np.asarray(it.values, dtype=object))))  # noqa: E731
            for perm in perms:
                p = list(perm)
                it = vd.Linear().fit((e[p], n[p]), d[p]).interpolator_
                ctx.claim("Linear: the same set of (point, value) pairs reaches scipy for every order", key(it) == key(base))


def h_linearity(ctx):
    cfg = ctx.cfg
    kind = cfg["kind"]
    stubs.reset_logs()
    stubs.SCALE_CONTRACT["exact"] = False
    pts = LAYOUT4
    npts = len(pts)
    e = np.array([p[0] for p in pts])
    n = np.array([p[1] for p in pts])
    a, b = ctx.real("a"), ctx.real("b")
    with warnings.catch_warnings():
        warnings.simplefilter("ignore")
        if kind == "kneighbors":
            d1, d2 = ctx.reals("d1", npts), ctx.reals("d2", npts)
            qe, qn = ctx.real("qe"), ctx.real("qn")
            q = (np.array([qe], dtype=object if ctx.sym else float), np.array([qn], dtype=object if ctx.sym else float))
            for i in range(npts):
                for j in range(i + 1, npts):
                    di = (qe - e[i]) ** 2 + (qn - n[i]) ** 2
                    dj = (qe - e[j]) ** 2 + (qn - n[j]) ** 2
                    ctx.assume(Not(eq(di, dj)) if ctx.sym else bool(abs(di - dj) > 1e-9))
            mk = lambda: vd.KNeighbors(k=2)  # noqa: E731
            p12 = mk().fit((e, n), a * d1 + b * d2).predict(q)
            p1 = mk().fit((e, n), d1).predict(q)
            p2 = mk().fit((e, n), d2).predict(q)
            ctx.claim("KNeighbors(mean): fit(a d1 + b d2) = a fit(d1) + b fit(d2)", eq(p12[0], a * p1[0] + b * p2[0]))
            return
        if kind == "trend":
            mk = lambda: vd.Trend(1)  # noqa: E731
            J = mk().jacobian((e, n))
            m = J.shape[1]
        elif kind == "spline":
            mk = lambda: vd.Spline()  # noqa: E731
            J = mk().jacobian((e, n), (e, n))
            m = npts
        else:
            mk = lambda: vd.VectorSpline2D(mindist=1.0, poisson=0.25)  # noqa: E731
            J = mk().jacobian((e, n), (e, n))
            m = 2 * npts
        # data written as J g with free g (for the square nonsingular spline systems this is every data vector;
        # for Trend it is every data vector in the range plus, separately, an arbitrary residual is not needed:
        # linearity of the normal equations is what is claimed)
        g1, g2 = ctx.reals("g1", m), ctx.reals("g2", m)
        Jx = np.array([[Fraction(float(v)) for v in row] for row in J], dtype=object) if ctx.sym else np.asarray(J, dtype=float)
        D1 = Jx.dot(g1)
        D2 = Jx.dot(g2)
        if kind == "trend":
            r1, r2 = ctx.reals("r1", npts), ctx.reals("r2", npts)
            D1 = D1 + r1
            D2 = D2 + r2

        def fit(data):
            if kind == "vector":
                return mk().fit((e, n), (data[:npts], data[npts:]))
            return mk().fit((e, n), data)

        f12 = fit(a * D1 + b * D2)
        f1 = fit(D1)
        f2 = fit(D2)
        attr = "coef_" if kind == "trend" else "force_"
        mag = 1.0 if ctx.sym else max(1.0, max(abs(float(v)) for v in list(a * D1 + b * D2)))
        for k in range(m):
            lhs = getattr(f12, attr)[k]
            rhs = a * getattr(f1, attr)[k] + b * getattr(f2, attr)[k]
            ctx.claim("parameters (hence predictions at every query point) are linear in the data: fit(a d1 + b d2) = a fit(d1) + b fit(d2)", eq(lhs, rhs) if ctx.sym else CBool(abs(float(lhs) - float(rhs)) <= 1e-6 * mag))


def _int_arrays(ctx, name, n):
    vals = ctx.ints(name, n, -50, 50)
    if ctx.sym:
        return npx.SymArray(vals, "int64"), np.array([v for v in vals], dtype=object)
    return np.asarray(vals, dtype=np.int64), np.asarray(vals, dtype=np.float64)


def h_dtype(ctx):
    cfg = ctx.cfg
    kind = cfg["kind"]
    stubs.reset_logs()
    stubs.SCALE_CONTRACT["exact"] = False
    npts = cfg.get("npts", 3)
    ei, ef = _int_arrays(ctx, "e", npts)
    ni, nf = _int_arrays(ctx, "n", npts)
    ctx.known_class("C04-int-dtype-" + kind, True)
    with warnings.catch_warnings():
        warnings.simplefilter("ignore")
        if kind == "trend_predict":
            coef = ctx.reals("c", 3)
            t1, t2 = vd.Trend(1), vd.Trend(1)
            t1.coef_ = coef
            t2.coef_ = coef
            pf = t2.predict((ef, nf))
            pi = t1.predict((ei, ni))
            for u, v in zip(pi, pf):
                ctx.claim("Trend.predict: integer-dtype coordinates give the float64 result", eq(u, v))
        elif kind == "trend_fit":
            # float coordinates, integer-valued data with an integer dtype
            e, n = ctx.reals("fe", npts), ctx.reals("fn", npts)
            di, df = _int_arrays(ctx, "d", npts)
            rec_i, rec_f = _LsqRecorder(ctx.sym), _LsqRecorder(ctx.sym)
            mod = sys.modules["verde.trend"]
            old = mod.least_squares
            try:
                mod.least_squares = rec_f
                vd.Trend(1).fit((e, n), df)
                mod.least_squares = rec_i
                vd.Trend(1).fit((e, n), di)
            finally:
                mod.least_squares = old
            for u, v in zip(np.ravel(rec_i.calls[0][0]), np.ravel(rec_f.calls[0][0])):
                ctx.claim("Trend.fit: integer-dtype data do not change the design matrix", eq(u, v))
        elif kind == "spline_predict":
            force = ctx.reals("f", 2)
            fc = (np.array([0.5, 3.5]), np.array([-1.5, 2.5]))
            outs = []
            for ee, nn in ((ei, ni), (ef, nf)):
                sp = vd.Spline()
                sp.force_ = force
                sp.force_coords_ = fc
                outs.append(sp.predict((ee, nn)))
            for u, v in zip(outs[0], outs[1]):
                ctx.claim("Spline.predict: integer-dtype coordinates give the float64 result", eq(u, v))
        elif kind == "vector_predict":
            force = ctx.reals("f", 4)
            fc = (np.array([0.5, 3.5]), np.array([-1.5, 2.5]))
            outs = []
            for ee, nn in ((ei, ni), (ef, nf)):
                sp = vd.VectorSpline2D(mindist=1.0, force_coords=fc)
                sp.force_ = force
                outs.append(sp.predict((ee, nn)))
            for comp in range(2):
                for u, v in zip(outs[0][comp], outs[1][comp]):
                    ctx.claim("VectorSpline2D.predict: integer-dtype coordinates give the float64 result", eq(u, v))
        elif kind in ("spline_fit", "vector_fit"):
            # integer-typed coordinates (concrete), data (symbolic integers) and weights in fit: what reaches the
            # solver, and the predictions, are those of the float64 versions
            di, df = _int_arrays(ctx, "d", 3)
            d2i, d2f = _int_arrays(ctx, "dd", 3)
            ci = (np.array([0, 3, 1], dtype=np.int64), np.array([0, 1, 4], dtype=np.int64))
            cf = (ci[0].astype(float), ci[1].astype(float))
            wi = np.array([1, 2, 3], dtype=np.int64)
            q = (np.array([0.25, 2.5]), np.array([0.75, 3.0]))
            modname = "verde.spline" if kind == "spline_fit" else "verde.vector"
            mod = sys.modules[modname]
            old = mod.least_squares
            recs, preds = [], []
            try:
                for cc, dat, dat2, ww in ((ci, di, d2i, wi), (cf, df, d2f, wi.astype(float))):
                    rec = _LsqRecorder(ctx.sym)
                    mod.least_squares = rec
                    if kind == "spline_fit":
                        est = vd.Spline().fit(cc, dat, ww)
                    else:
                        est = vd.VectorSpline2D(mindist=1.0).fit(cc, (dat, dat2), (ww, ww))
                    recs.append(rec)
                    pr = est.predict(q)
                    preds.append(list(pr) if isinstance(pr, tuple) else [pr])
            finally:
                mod.least_squares = old
            ok = len(recs[0].calls) == 1 and len(recs[1].calls) == 1
            ctx.claim("fit calls the solver once", ok)
            if ok:
                for k, what in enumerate(("design matrix", "data", "weights")):
                    a, b = recs[0].calls[0][k], recs[1].calls[0][k]
                    ctx.claim("integer-dtype coordinates, data and weights: same %s at the solver as with float64 inputs" % what, And(np.shape(a) == np.shape(b), And([eq(u, v) for u, v in zip(np.ravel(a), np.ravel(b))]) if np.shape(a) == np.shape(b) else False))
                for pa, pb in zip(preds[0], preds[1]):
                    for u, v in zip(np.ravel(pa), np.ravel(pb)):
                        ctx.claim("integer-dtype fit inputs give the float64 predictions", eq(u, v))
        elif kind == "linear_fit":
            di, df = _int_arrays(ctx, "d", 3)
            ci = (np.array([0, 3, 1], dtype=np.int64), np.array([0, 1, 4], dtype=np.int64))
            cf = (ci[0].astype(float), ci[1].astype(float))
            q = (np.array([1.25]), np.array([1.5]))
            pi = vd.Linear().fit(ci, di).predict(q)
            pf = vd.Linear().fit(cf, df).predict(q)
            ctx.claim("Linear: integer-dtype inputs give the float64 result", eq(pi[0], pf[0]))
        elif kind == "kneighbors":
            di, df = _int_arrays(ctx, "d", npts)
            ci = (np.array([0, 3, 1], dtype=np.int64), np.array([0, 1, 4], dtype=np.int64))
            cf = (ci[0].astype(float), ci[1].astype(float))
            q = (np.array([0.25]), np.array([0.75]))
            red = npx.NP.mean if ctx.sym else np.mean  # numpy's own mean cannot reduce a modelled-dtype array
            pi = vd.KNeighbors(k=2, reduction=red).fit(ci, di).predict(q)
            pf = vd.KNeighbors(k=2, reduction=red).fit(cf, df).predict(q)
            ctx.claim("KNeighbors: integer-dtype inputs give the float64 result", eq(pi[0], pf[0]))


def _perms(tier, n):
    allp = list(itertools.permutations(range(n)))[1:]
    if tier == "quick":
        return [allp[0], allp[len(allp) // 2], allp[-1]]
    return allp


def h_broadcast(ctx):
    """query easting and northing of different but broadcastable shapes: the prediction has their broadcast shape and,
    cell by cell, the value predicted for the fully expanded query arrays"""
    kind = ctx.cfg["kind"]
    stubs.reset_logs()
    stubs.SCALE_CONTRACT["exact"] = False
    e = np.array([p[0] for p in LAYOUT4])
    n = np.array([p[1] for p in LAYOUT4])
    d, dd = ctx.reals("d", 4), ctx.reals("dd", 4)
    with warnings.catch_warnings():
        warnings.simplefilter("ignore")
        if kind == "trend":
            est = vd.Trend(1).fit((e, n), d)
        elif kind == "spline":
            est = vd.Spline().fit((e, n), d)
        elif kind == "vector":
            est = vd.VectorSpline2D(mindist=1.0).fit((e, n), (d, dd))
        elif kind == "kneighbors":
            est = vd.KNeighbors(k=1).fit((e, n), d)
        else:
            est = vd.Linear().fit((e, n), d)
        row = np.array([[0.4, 1.1, 1.9]])  # (1, 3) eastings
        col = np.array([[0.9], [0.3]])  # (2, 1) northings
        full_e, full_n = np.broadcast_arrays(row, col)
        full_e, full_n = full_e.copy(), full_n.copy()
        for label, q, qfull, want in (
            ("(1,3) easting with (2,1) northing", (row, col), (full_e, full_n), (2, 3)),
            ("scalar easting with (2,1) northing", (0.4, col), (np.full((2, 1), 0.4), col), (2, 1)),
            ("(3,) easting with scalar northing", (row[0], 0.9), (row[0], np.full(3, 0.9)), (3,)),
        ):
            ref = est.predict(qfull)
            got = est.predict(q)
            refs = list(ref) if isinstance(ref, tuple) else [ref]
            gots = list(got) if isinstance(got, tuple) else [got]
            ok = len(gots) == len(refs) and all(np.shape(g) == want for g in gots)
            ctx.claim("prediction has the broadcast shape of the query easting/northing: %s" % label, ok)
            if ok:
                for g, r in zip(gots, refs):
                    both_nan = lambda u, v: (not E.is_sym(u)) and (not E.is_sym(v)) and u != u and v != v  # outside Linear's hull
                    ctx.claim("broadcast query predicts, cell by cell, what the expanded query arrays predict", And([True if both_nan(u, v) else eq(u, v) for u, v in zip(np.ravel(g), np.ravel(r))]))


def h_query_layout(ctx):
    """the same query points presented as C-ordered, Fortran-ordered, transposed-view and strided 2x2 arrays and as
    pandas Series: every presentation predicts, at each logical position, what the C-ordered arrays predict"""
    kind = ctx.cfg["kind"]
    stubs.reset_logs()
    stubs.SCALE_CONTRACT["exact"] = False
    e = np.array([p[0] for p in LAYOUT4])
    n = np.array([p[1] for p in LAYOUT4])
    d, dd = ctx.reals("d", 4), ctx.reals("dd", 4)
    with warnings.catch_warnings():
        warnings.simplefilter("ignore")
        if kind == "trend":
            est = vd.Trend(1).fit((e, n), d)
        elif kind == "spline":
            est = vd.Spline().fit((e, n), d)
        elif kind == "vector":
            est = vd.VectorSpline2D(mindist=1.0).fit((e, n), (d, dd))
        elif kind == "kneighbors":
            est = vd.KNeighbors(k=1).fit((e, n), d)
        elif kind == "linear":
            est = vd.Linear().fit((e, n), d)
        elif kind == "cubic":
            est = vd.Cubic().fit((e, n), d)
        elif kind == "chain":
            est = vd.Chain([("trend", vd.Trend(1)), ("spline", vd.Spline())]).fit((e, n), d)
        else:
            est = vd.Vector([vd.Trend(1), vd.Spline()]).fit((e, n), (d, dd))
        qe = np.array([[0.4, 1.1], [1.6, 0.7]])
        qn = np.array([[0.9, 0.3], [1.2, 2.0]])
        ref = est.predict((qe, qn))
        refs = list(ref) if isinstance(ref, tuple) else [ref]
        pad_e, pad_n = np.zeros((2, 4)), np.zeros((2, 4))
        pad_e[:, ::2], pad_n[:, ::2] = qe, qn
        pad_e[:, 1::2], pad_n[:, 1::2] = -qe, -qn
        forms = {
            "Fortran order": (np.asfortranarray(qe), np.asfortranarray(qn), (2, 2)),
            "transposed view": (np.ascontiguousarray(qe.T).T, np.ascontiguousarray(qn.T).T, (2, 2)),
            "strided view": (pad_e[:, ::2], pad_n[:, ::2], (2, 2)),
            "pandas Series": (pd.Series(qe.ravel()), pd.Series(qn.ravel()), (4,)),
            "lists": (qe.ravel().tolist(), qn.ravel().tolist(), (4,)),
        }
        for label, (fe, fn, want) in forms.items():
            got = est.predict((fe, fn))
            gots = list(got) if isinstance(got, tuple) else [got]
            ok = len(gots) == len(refs) and all(np.shape(g) == want for g in gots)
            ctx.claim("prediction has the query's shape: %s" % label, ok)
            if ok:
                for g, r in zip(gots, refs):
                    both_nan = lambda u, v: (not E.is_sym(u)) and (not E.is_sym(v)) and u != u and v != v
                    ctx.claim("query presented as %s predicts, position by position, what the C-ordered arrays predict" % label, And([True if both_nan(u, v) else eq(u, v) for u, v in zip(np.asarray(g).ravel(), np.asarray(r).ravel())]))


def _cv_globals(cfg):
    g = dict(_globals(cfg))
    g.update(stubs.scoring_globals())
    return g


def h_cross_val_layout(ctx):
    """model selection sees the same samples whatever the shape of the arrays: cross_val_score on 2x2 (C, Fortran,
    transposed) inputs and pandas Series gives, split by split, the scores of the raveled 1-D inputs"""
    from sklearn.model_selection import KFold
    from symx import gridders
    from symx.gridders import UFGridder

    e4, n4 = ctx.reals("e", 4), ctx.reals("n", 4)
    d4, w4 = ctx.reals("d", 4), ctx.reals("w", 4)
    for v in w4:
        ctx.assume(v > 0)
    forms = {k: _presentations(v, ctx) for k, v in (("e", list(e4)), ("n", list(n4)), ("d", list(d4)), ("w", list(w4)))}
    scores = {}
    for pres in forms["e"]:
        gridders.reset()
        with warnings.catch_warnings():
            warnings.simplefilter("ignore")
            sc = vd.cross_val_score(UFGridder(ident=4), (forms["e"][pres], forms["n"][pres]), forms["d"][pres], weights=forms["w"][pres], cv=KFold(n_splits=2), scoring="neg_mean_squared_error")
        scores[pres] = list(np.ravel(sc))
    base = scores["1d"]
    for pres, sc in scores.items():
        ctx.claim("cross_val_score returns one score per split for every presentation", len(sc) == 2)
        if pres != "1d" and len(sc) == len(base):
            ctx.claim("cross-validation scores do not depend on the presentation of the arrays (1-D, 2x2 C, 2x2 Fortran, strided view, pandas Series)", And([eq(a, b) for a, b in zip(sc, base)]))


def _cfg_layout(tier, seed):
    return [{"kind": k, "extra": x} for k in ("trend", "spline", "vector", "kneighbors", "linear") for x in ((False, True) if tier == "thorough" or k in ("trend", "linear") else (True,))]


def _cfg_perm(tier, seed):
    return [{"kind": k, "perms": _perms(tier, 4)} for k in ("spline", "trend", "linear", "kneighbors", "vector")] + ([{"kind": "kneighbors", "perms": _perms(tier, 4), "k": 3}] if tier == "thorough" else [])


HARNESSES = [
    Harness("layout", h_layout, _cfg_layout, bounds="4 symbolic elements per array presented as 1-D, 2x2 C-order, 2x2 Fortran-order, strided view of a longer array, pandas Series, with/without an ignored extra coordinate; query arrays of shape (1,3) and scalars; Trend with symbolic coordinates, the others on a concrete 4-point layout", stubs=["least_squares -> recorder with fixed result symbols", "cKDTree / scipy interpolators -> contract stubs"], extra_globals=_globals, engine={"oneshot": True}),
    Harness("broadcast_query", h_broadcast, lambda tier, seed: [{"kind": k} for k in ("trend", "spline", "vector", "kneighbors", "linear")], bounds="concrete 4-point layout, symbolic data; query pairs (1,3)x(2,1), scalar x (2,1), (3,) x scalar against the same queries expanded to equal shapes", stubs=["sklearn / cKDTree / scipy interpolators -> contract stubs"], extra_globals=_globals, engine={"oneshot": True}),
    Harness("query_layout", h_query_layout, lambda tier, seed: [{"kind": k} for k in ("trend", "spline", "vector", "kneighbors", "linear", "cubic", "chain", "vector_of")], bounds="every gridder class plus a Chain and a Vector fitted on the concrete 4-point layout with symbolic data; one 2x2 query in C order against Fortran order, transposed view, strided view, pandas Series and Python lists", stubs=["sklearn / cKDTree / scipy interpolators -> contract stubs"], extra_globals=_globals, engine={"oneshot": True}),
    Harness("cross_val_layout", h_cross_val_layout, {"quick": [{}]}, bounds="4 symbolic samples (coordinates, data, positive weights) in five presentations through cross_val_score with KFold(2) and a recording gridder", stubs=["scorer -> closed-form MSE (symbolic run)"], extra_globals=_cv_globals, engine={"oneshot": True}),
    Harness("permutation", h_permutation, _cfg_perm, bounds="concrete 4-point layout, symbolic data; 3 permutations (quick) / all 23 (thorough); Spline, VectorSpline2D, Trend, KNeighbors(mean, k=2/3, symbolic query in general position), Linear (pairing only)", stubs=["sklearn -> contracts", "cKDTree / interpolators -> contract stubs"], extra_globals=_globals, engine={"oneshot": True}, timeout_s=900),
    Harness("linearity", h_linearity, lambda tier, seed: [{"kind": k} for k in ("spline", "trend", "kneighbors", "vector")], bounds="concrete 4-point layout; symbolic scalars a, b and data vectors (written as J g + residual so that every data vector is covered)", stubs=["sklearn -> contracts", "cKDTree -> contract stub"], extra_globals=_globals, engine={"oneshot": True, "timeout_ms": 120000}, outside="Cubic (not linear); Linear's linearity is scipy's (OUT-LIB)", timeout_s=900),
    Harness("integer_dtype", h_dtype, lambda tier, seed: [{"kind": k, "npts": 3 if (tier == "thorough" or not k.endswith("e_predict") and k != "vector_predict") else 2} for k in ("trend_predict", "trend_fit", "spline_predict", "vector_predict", "kneighbors", "spline_fit", "vector_fit", "linear_fit")], bounds="3 points with symbolic integer coordinates/data in -50..50 carried by a modelled int64 dtype versus the same values as float64; symbolic parameters; fits with concrete int64 coordinates and weights and symbolic integer data", stubs=["numpy dtype/casting model for np.empty/np.zeros(dtype=<input>.dtype) buffers (OUT-DTYPE)"], extra_globals=_globals, engine={"oneshot": True, "keyed_sqrt": True}),
]
