"""C09 BlockReduce returns one correctly reduced value per non-empty block.

Real functions executed: verde.blockreduce.BlockReduce.filter,
_block_coordinates, attach_weights; verde.base.utils.check_fit_input; real
pandas DataFrame.groupby().aggregate() on object columns."""
from fractions import Fraction

import numpy as np

import verde as vd
from verde import blockreduce as vb

from symx import stubs, npx
from symx import engine as E
from symx.engine import And, Or, Not, Implies, eq, le, lt, ge, gt, smin, smax
from symx.harness import Harness

ASSUMPTIONS = [
    "block_split replaced by the C08 contract (label = containing block); points are constrained strictly inside enumerated blocks",
    "pandas groupby/aggregate runs for real; in the symbolic run the reduction is passed as a plain callable over the group's values (numpy's own np.sum/np.median/... objects are used in the replay)",
    "exact real arithmetic",
]


def _globals(cfg):
    return {("verde.blockreduce", "block_split"): stubs.BlockSplitContract()}


HALF = Fraction(1, 2)


def _at_least(k, conds):
    "at least k of the conditions hold"
    import itertools

    if k <= 0:
        return True
    if k > len(conds):
        return False
    return Or([And(list(sub)) for sub in itertools.combinations(conds, k)])


def is_median(m, vals):
    """definition of the median, independent of any sorting code: the middle order
    statistic (odd n) or the mean of the two middle order statistics (even n)"""
    vals = list(vals)
    n = len(vals)
    if n % 2:
        h = (n - 1) // 2
        return Or([And(eq(m, vals[i]), _at_least(h, [le(vals[k], vals[i]) for k in range(n) if k != i]), _at_least(h, [ge(vals[k], vals[i]) for k in range(n) if k != i])) for i in range(n)])
    h = n // 2 - 1
    cases = []
    for i in range(n):
        for j in range(n):
            if i == j:
                continue
            rest = [k for k in range(n) if k not in (i, j)]
            cases.append(And(eq(m * 2, vals[i] + vals[j]), le(vals[i], vals[j]), _at_least(h, [le(vals[k], vals[i]) for k in rest]), _at_least(h, [ge(vals[k], vals[j]) for k in rest])))
    return Or(cases)


def _reduction(ctx, name):
    NP = npx.NP
    if name == "sum":
        return (lambda v, **kw: sum(list(np.asarray(getattr(v, "values", v))))) if ctx.sym else np.sum
    if name == "min":
        return (lambda v, **kw: NP.min(np.asarray(getattr(v, "values", v)))) if ctx.sym else np.min
    if name == "max":
        return (lambda v, **kw: NP.max(np.asarray(getattr(v, "values", v)))) if ctx.sym else np.max
    if name == "median":
        return (lambda v, **kw: NP.median(np.asarray(getattr(v, "values", v)))) if ctx.sym else np.median
    if name == "mean":
        return (lambda v, **kw: np.mean(np.asarray(getattr(v, "values", v)))) if ctx.sym else np.mean
    if name == "average":
        return NP.average if ctx.sym else np.average
    raise ValueError(name)


def _expected(name, vals, ws=None):
    vals = list(vals)
    if name == "sum":
        return sum(vals)
    if name == "min":
        return smin(vals)
    if name == "max":
        return smax(vals)
    if name == "median":
        return ("median", vals)
    if name == "mean":
        return sum(vals) / len(vals)
    if name == "average":
        if ws is None:
            return sum(vals) / len(vals)
        return sum(w * v for w, v in zip(ws, vals)) / sum(ws)
    raise ValueError(name)


def _match(got, exp):
    if isinstance(exp, tuple) and exp and exp[0] == "median":
        return is_median(got, exp[1])
    return eq(got, exp)


def h_blockreduce(ctx):
    cfg = ctx.cfg
    members = cfg["members"]
    npts = len(members)
    shape = tuple(cfg["shape"])
    ncomp = cfg["ncomp"]
    red = cfg["reduction"]
    pshape = tuple(cfg.get("pshape", (npts,)))
    w, ee, s, no = ctx.real("W"), ctx.real("E"), ctx.real("S"), ctx.real("N")
    ctx.assume(w < ee)
    ctx.assume(s < no)
    region = (w, ee, s, no)
    e = ctx.reals("e", npts)
    n = ctx.reals("n", npts)
    x = ctx.reals("x", npts)
    nn_, ne_ = shape
    if cfg.get("adjust") == "region":
        # blocks of exactly the requested size laid out from (W, S); their number is the nearest integer to
        # extent / spacing (ties excluded), so the tiled region ends at W + ne*s_east, S + nn*s_north
        se, sn = ctx.real("spacing_e"), ctx.real("spacing_n")
        ctx.assume(se > 0)
        ctx.assume(sn > 0)
        ctx.assume(And(gt(ee - w, (ne_ - HALF) * se), lt(ee - w, (ne_ + HALF) * se), gt(no - s, (nn_ - HALF) * sn), lt(no - s, (nn_ + HALF) * sn)))
        we_, hn_ = se, sn
    else:
        we_, hn_ = (ee - w) / ne_, (no - s) / nn_
    if cfg.get("region") == "inferred":
        ctx.assume(And(eq(w, smin(list(e))), eq(ee, smax(list(e))), eq(s, smin(list(n))), eq(no, smax(list(n)))))
    loose = cfg.get("outside") or cfg.get("region") == "inferred"
    for p in range(npts):
        if loose:
            # border blocks reach outwards: points on or beyond the region's edge belong to the nearest border block
            i, j = divmod(members[p], ne_)
            ctx.assume(And(True if j == 0 else gt(e[p], w + j * we_), True if j == ne_ - 1 else lt(e[p], w + (j + 1) * we_), True if i == 0 else gt(n[p], s + i * hn_), True if i == nn_ - 1 else lt(n[p], s + (i + 1) * hn_)))
        elif cfg.get("adjust") == "region":
            i, j = divmod(members[p], ne_)
            ctx.assume(And(gt(e[p], w + j * we_), lt(e[p], w + (j + 1) * we_), gt(n[p], s + i * hn_), lt(n[p], s + (i + 1) * hn_)))
        else:
            ctx.assume(stubs.in_block(ctx, e[p], n[p], region, shape, members[p]))
    data = [ctx.reals("d%d" % c, npts) for c in range(ncomp)]
    weights = None
    if cfg["weighted"]:
        weights = [ctx.reals("w%d" % c, npts) for c in range(ncomp)]
        for wc in weights:
            for v in wc:
                ctx.assume(v >= 0 if cfg.get("zero_w") else v > 0)
            if cfg.get("zero_w"):
                # zero weights are legitimate (outliers switched off) as long as every block keeps some weight
                for b in set(members):
                    ctx.assume(sum(wc[p] for p in range(npts) if members[p] == b) > 0)
    if cfg.get("cancel"):
        # special values: the data of a block cancel (sum exactly zero) - "contains data" is not "total != 0"
        for b in set(members):
            idx = [p for p in range(npts) if members[p] == b]
            for dc in data:
                ctx.assume(eq(sum(dc[p] for p in idx), 0))
    arrs = [e, n, x] + data + (weights or [])
    arrs = [a.reshape(pshape) for a in arrs]
    if cfg.get("mem"):
        from symx.harness import relayout

        # data / weights / extra coordinate in another memory layout than the horizontal coordinates
        arrs = arrs[:2] + [relayout(a, cfg["mem"]) for a in arrs[2:]]
    for a in arrs:
        a.setflags(write=False)
    e2, n2, x2 = arrs[:3]
    data2 = arrs[3 : 3 + ncomp]
    weights2 = arrs[3 + ncomp :] if weights else None
    kw = {}
    if cfg.get("adjust") == "region":
        kw["spacing"] = (sn, se)
        kw["adjust"] = "region"
    elif cfg.get("use_spacing"):
        # spacing chosen so that the layout is the same (extent / blocks per axis)
        kw["spacing"] = ((no - s) / shape[0], (ee - w) / shape[1])
    else:
        kw["shape"] = shape
    br = vd.BlockReduce(_reduction(ctx, red), region=None if cfg.get("region") == "inferred" else region, center_coordinates=cfg.get("center", False), drop_coords=cfg.get("drop", True), **kw)
    darg = tuple(data2) if ncomp > 1 else data2[0]
    warg = None if weights2 is None else (tuple(weights2) if ncomp > 1 else weights2[0])
    params_before = dict(br.get_params())
    coords, out = br.filter((e2, n2, x2), darg, warg)
    params_after = br.get_params()
    ctx.claim("filter leaves the reducer's parameters untouched (a later call on other data is not affected)", And(set(params_after) == set(params_before), all(params_after[k] is params_before[k] for k in params_before)))
    outs = list(out) if ncomp > 1 else [out]
    ctx.claim("tuple of components iff several components", isinstance(out, tuple) == (ncomp > 1))
    blocks = sorted(set(members))
    ncoord = 2 if cfg.get("drop", True) else 3
    ctx.claim("coordinates: easting, northing (+ reduced extra coordinates unless dropped)", len(coords) == ncoord)
    ctx.claim("exactly one entry per non-empty block", And(all(len(c) == len(blocks) for c in coords), all(len(o) == len(blocks) for o in outs)))
    if len(coords) != ncoord or any(len(o) != len(blocks) for o in outs) or any(len(c) != len(blocks) for c in coords):
        return
    nn, ne = shape
    for bi, b in enumerate(blocks):
        idx = [p for p in range(npts) if members[p] == b]
        for c in range(ncomp):
            ws = [weights[c][p] for p in idx] if weights else None
            ctx.claim("value = reduction over exactly the block's members (own weights, own component), ascending block order", _match(outs[c][bi], _expected(red, [data[c][p] for p in idx], ws)))
        if cfg.get("center"):
            i, j = divmod(b, ne)
            ctx.claim("center_coordinates: centre of that very block", And(eq(coords[0][bi], w + (j + Fraction(1, 2)) * we_), eq(coords[1][bi], s + (i + Fraction(1, 2)) * hn_)))
        else:
            ctx.claim("coordinates = same reduction of the member coordinates", And(_match(coords[0][bi], _expected(red, [e[p] for p in idx])), _match(coords[1][bi], _expected(red, [n[p] for p in idx]))))
        if ncoord == 3:
            ctx.claim("extra coordinate reduced over the members too", _match(coords[2][bi], _expected(red, [x[p] for p in idx])))
    if red == "sum":
        for c in range(ncomp):
            ctx.claim("sum reduction: outputs add up to the input total", eq(sum(list(outs[c])), sum(list(data[c]))))
    for a in arrs:
        ctx.claim("inputs left read-only and unmodified", not a.flags.writeable)


def _kd_globals(cfg):
    return stubs.kdtree_globals()


def h_two_calls(ctx):
    """the same instance (region inferred from the data) filters dataset A, then dataset B with another
    extent: the second result equals that of a fresh instance"""
    cfg = ctx.cfg
    A = [(0.0, 0.0), (10.0, 10.0), (1.0, 1.0), (9.0, 2.0)]
    B = [(100.0, 50.0), (104.0, 52.0), (101.0, 50.5), (103.5, 51.5), (103.0, 50.25)]
    dA, dB = ctx.reals("A", len(A)), ctx.reals("B", len(B))
    red = _reduction(ctx, cfg["reduction"])

    def run(br, pts, d):
        e = np.array([p[0] for p in pts])
        n = np.array([p[1] for p in pts])
        return br.filter((e, n), d)

    used = vd.BlockReduce(red, shape=tuple(cfg["shape"]), center_coordinates=cfg.get("center", False))
    run(used, A, dA)
    c1, o1 = run(used, B, dB)
    c2, o2 = run(vd.BlockReduce(red, shape=tuple(cfg["shape"]), center_coordinates=cfg.get("center", False)), B, dB)
    ctx.claim("second call gives as many blocks as a fresh reducer", And(len(o1) == len(o2), len(c1[0]) == len(c2[0])))
    if len(o1) == len(o2):
        for a, b in zip(o1, o2):
            ctx.claim("a reducer that already filtered other data behaves like a fresh one (values)", eq(a, b))
        for k in range(2):
            for a, b in zip(c1[k], c2[k]):
                ctx.claim("a reducer that already filtered other data behaves like a fresh one (coordinates)", eq(a, b))


def _cfg(tier, seed):
    out = []
    S = [((1, 2), [0, 0, 1]), ((2, 2), [3, 0, 3, 0]), ((1, 3), [2, 0, 2])]
    if tier == "thorough":
        S += [((2, 2), [2, 2, 2, 1, 1]), ((2, 1), [1, 1, 0, 1]), ((2, 3), [5, 0, 5, 2, 0]), ((2, 3), [4, 1, 4, 1, 4, 0]), ((3, 3), [8, 0, 4, 4, 8, 2])]
    for shape, members in S:
        for red in ("sum", "min", "median", "mean", "max") if tier == "thorough" else ("sum", "median", "mean"):
            if tier == "quick" and (shape, red) not in (((1, 2), "sum"), ((2, 2), "median"), ((1, 3), "mean"), ((2, 2), "sum")):
                continue
            out.append({"shape": shape, "members": members, "ncomp": 1, "reduction": red, "weighted": False, "drop": red != "mean"})
        out.append({"shape": shape, "members": members, "ncomp": 1, "reduction": "average", "weighted": True})
    out.append({"shape": (1, 2), "members": [1, 0, 1], "ncomp": 2, "reduction": "average", "weighted": True, "center": True})
    out.append({"shape": (2, 2), "members": [3, 0, 3, 0], "ncomp": 2, "reduction": "sum", "weighted": False, "center": True, "pshape": (2, 2)})
    out.append({"shape": (1, 2), "members": [1, 0, 1, 1], "ncomp": 1, "reduction": "min", "weighted": False, "use_spacing": True, "drop": False, "pshape": (2, 2)})
    out.append({"shape": (1, 2), "members": [1, 0, 0, 1], "ncomp": 2, "reduction": "average", "weighted": True, "drop": False, "pshape": (2, 2), "mem": "F"})
    out.append({"shape": (2, 2), "members": [3, 0, 3, 1], "ncomp": 1, "reduction": "sum", "weighted": False, "cancel": True})
    out.append({"shape": (1, 3), "members": [2, 0, 2], "ncomp": 2, "reduction": "mean", "weighted": False, "cancel": True})
    out.append({"shape": (2, 2), "members": [3, 0, 1, 0], "ncomp": 1, "reduction": "sum", "weighted": False, "pshape": (2, 2), "mem": "T"})
    out.append({"shape": (1, 2), "members": [1, 0, 1], "ncomp": 1, "reduction": "sum", "weighted": False, "outside": True})
    out.append({"shape": (2, 2), "members": [3, 0, 3], "ncomp": 1, "reduction": "mean", "weighted": False, "center": True, "drop": False})
    out.append({"shape": (1, 2), "members": [1, 0, 0, 1], "ncomp": 1, "reduction": "average", "weighted": True, "zero_w": True})
    out.append({"shape": (2, 1), "members": [1, 0, 1], "ncomp": 1, "reduction": "sum", "weighted": False, "region": "inferred", "center": True})
    out.append({"shape": (1, 2), "members": [1, 0, 1], "ncomp": 1, "reduction": "mean", "weighted": False, "adjust": "region", "center": True})
    if tier == "thorough":
        out.append({"shape": (2, 2), "members": [0, 3, 3, 1], "ncomp": 3, "reduction": "average", "weighted": True, "drop": False})
        out.append({"shape": (2, 2), "members": [0, 3, 3, 1], "ncomp": 3, "reduction": "median", "weighted": False, "center": True})
    return out


HARNESSES = [
    Harness(
        "two_calls_inferred_region",
        h_two_calls,
        lambda tier, seed: [{"shape": (1, 2), "reduction": "sum"}, {"shape": (2, 2), "reduction": "mean", "center": True}],
        bounds="two concrete point clouds with different extents (4 and 5 points), symbolic data, region inferred, the real block_split over the kd-tree contract",
        stubs=["cKDTree -> nearest-neighbour contract"],
        extra_globals=_kd_globals,
        engine={"oneshot": True},
    ),
    Harness(
        "blockreduce_filter",
        h_blockreduce,
        _cfg,
        bounds="3-5 (quick) / up to 6 (thorough) points with symbolic coordinates strictly inside enumerated blocks of a symbolic region (layouts 1x2, 2x2, 1x3, 2x1, 2x3; empty blocks, single-member blocks, non-ascending first appearance), symbolic data (1-3 components), positive symbolic weights, a symbolic extra coordinate; reductions sum/min/max/median/mean/weighted average; center_coordinates and drop_coords on/off; 1-D and 2x2 inputs; shape or spacing",
        stubs=["verde.blockreduce.block_split -> C08 contract"],
        extra_globals=_globals,
        engine={"oneshot": True},
        outside="more than 5 points; numpy's np.mean object handed to pandas in the symbolic run (pandas routes it to Series.mean, which coerces to float) - it is used in the replay",
    ),
]
