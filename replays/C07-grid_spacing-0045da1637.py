#!/verif/.venv/bin/python
"""Replay of a counterexample on the real, unstubbed verde code (plain numpy inputs).
Run: /verif/check replay /verif/replays/C07-grid_spacing-0045da1637.py
Exit status 1 and a list of failed claims if the violation reproduces."""
import json, sys
sys.path.insert(0, '/verif')
PAYLOAD = json.loads('{"property": "C07", "harness": "grid_spacing", "cfg": {"adjust": "spacing", "pixel": true, "per_direction": false, "maxq": "5/2"}, "inputs": {"W": 0.0, "E": 0.0, "S": 0.0, "N": 1.0, "spacing": 2.0}, "failed_claims": ["north node k = first + k*step", "north last pixel centre is half a step before stop"], "found_by": "solver model (dyadic) for claim \'north last pixel centre is half a step before stop\'"}')
if __name__ == '__main__':
    from symx.harness import replay_payload
    sys.exit(replay_payload(PAYLOAD))
