#!/verif/.venv/bin/python
"""Replay of a counterexample on the real, unstubbed verde code (plain numpy inputs).
Run: /verif/check replay /verif/replays/C07-grid_shape-1311ca6424.py
Exit status 1 and a list of failed claims if the violation reproduces."""
import json, sys
sys.path.insert(0, '/verif')
PAYLOAD = json.loads('{"property": "C07", "harness": "grid_shape", "cfg": {"shape": [2, 3], "pixel": true, "extra": 0}, "inputs": {"W": 0.0, "E": 1.0, "S": -1.0, "N": -1.0}, "failed_claims": ["grid shape is (n_north, n_east)"], "found_by": "solver model (dyadic) for claim \'grid shape is (n_north, n_east)\'"}')
if __name__ == '__main__':
    from symx.harness import replay_payload
    sys.exit(replay_payload(PAYLOAD))
