#!/verif/.venv/bin/python
"""Replay of a counterexample on the real, unstubbed verde code (plain numpy inputs).
Run: /verif/check replay /verif/replays/C07-grid_spacing-622f4bb1f2.py
Exit status 1 and a list of failed claims if the violation reproduces."""
import json, sys
sys.path.insert(0, '/verif')
PAYLOAD = json.loads('{"property": "C07", "harness": "grid_spacing", "cfg": {"adjust": "region", "pixel": false, "per_direction": true, "maxq": "5/2"}, "inputs": {"W": 1000.0, "E": 1000.0, "S": 500.0, "N": 501.0, "spacing_n": 2.0, "spacing_e": 1.0}, "failed_claims": ["east adjust=region keeps the requested step", "east node k = first + k*step", "north adjust=region keeps the requested step", "north node k = first + k*step"], "found_by": "solver model (dyadic) for claim \'north adjust=region keeps the requested step\'"}')
if __name__ == '__main__':
    from symx.harness import replay_payload
    sys.exit(replay_payload(PAYLOAD))
