#!/verif/.venv/bin/python
"""Replay of a counterexample on the real, unstubbed verde code (plain numpy inputs).
Run: /verif/check replay /verif/replays/C07-line_size-4547fe9cb4.py
Exit status 1 and a list of failed claims if the violation reproduces."""
import json, sys
sys.path.insert(0, '/verif')
PAYLOAD = json.loads('{"property": "C07", "harness": "line_size", "cfg": {"pixel": true, "maxsize": 4}, "inputs": {"start": -998.0, "stop": -997.0, "size": 1}, "failed_claims": ["line(size) node k = first + k*step", "line(size) last pixel centre is half a step before stop"], "found_by": "solver model (dyadic) for claim \'line(size) node k = first + k*step\'"}')
if __name__ == '__main__':
    from symx.harness import replay_payload
    sys.exit(replay_payload(PAYLOAD))
