#!/verif/.venv/bin/python
"""Replay of a counterexample on the real, unstubbed verde code (plain numpy inputs).
Run: /verif/check replay /verif/replays/C07-line_spacing-175f2a8051.py
Exit status 1 and a list of failed claims if the violation reproduces."""
import json, sys
sys.path.insert(0, '/verif')
PAYLOAD = json.loads('{"property": "C07", "harness": "line_spacing", "cfg": {"adjust": "region", "pixel": true, "maxq": "7/2"}, "inputs": {"start": -1000.0, "stop": -999.0, "spacing": 1.0}, "failed_claims": ["line node k = first + k*step", "spacing_to_size moves stop to a whole number of spacings"], "found_by": "solver model (dyadic) for claim \'line node k = first + k*step\'"}')
if __name__ == '__main__':
    from symx.harness import replay_payload
    sys.exit(replay_payload(PAYLOAD))
