#!/verif/.venv/bin/python
"""Replay of a counterexample on the real, unstubbed verde code (plain numpy inputs).
Run: /verif/check replay /verif/replays/C07-grid_shape-25cd50f59e.py
Exit status 1 and a list of failed claims if the violation reproduces."""
import json, sys
sys.path.insert(0, '/verif')
PAYLOAD = json.loads('{"property": "C07", "harness": "grid_shape", "cfg": {"shape": [3, 1], "pixel": true, "extra": 0}, "inputs": {"W": 0.0, "E": 0.0, "S": 1.0, "N": 2.0}, "failed_claims": ["north node k = first + k*step", "north node k = first + k*step", "north node k = first + k*step", "north last pixel centre is half a step before stop"], "found_by": "solver model (dyadic) for claim \'north last pixel centre is half a step before stop\'"}')
if __name__ == '__main__':
    from symx.harness import replay_payload
    sys.exit(replay_payload(PAYLOAD))
