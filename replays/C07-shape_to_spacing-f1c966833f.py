#!/verif/.venv/bin/python
"""Replay of a counterexample on the real, unstubbed verde code (plain numpy inputs).
Run: /verif/check replay /verif/replays/C07-shape_to_spacing-f1c966833f.py
Exit status 1 and a list of failed claims if the violation reproduces."""
import json, sys
sys.path.insert(0, '/verif')
PAYLOAD = json.loads('{"property": "C07", "harness": "shape_to_spacing", "cfg": {"shape": [2, 3], "pixel": false}, "inputs": {"W": -1.0, "E": 0.0, "S": -1000.0, "N": -999.0}, "failed_claims": ["east spacing = extent / intervals", "north spacing = extent / intervals", "grid_coordinates(spacing=shape_to_spacing(shape)) has that shape"], "found_by": "solver model (dyadic) for claim \'east spacing = extent / intervals\'"}')
if __name__ == '__main__':
    from symx.harness import replay_payload
    sys.exit(replay_payload(PAYLOAD))
