#!/verif/.venv/bin/python
"""Replay of a counterexample on the real, unstubbed verde code (plain numpy inputs).
Run: /verif/check replay /verif/replays/C07-grid_spacing-a946596340.py
Exit status 1 and a list of failed claims if the violation reproduces."""
import json, sys
sys.path.insert(0, '/verif')
PAYLOAD = json.loads('{"property": "C07", "harness": "grid_spacing", "cfg": {"adjust": "region", "pixel": true, "per_direction": false, "maxq": "5/2"}, "inputs": {"W": -1000.0, "E": 0.0, "S": -1000.0, "N": 0.0, "spacing": 1000.0}, "failed_claims": ["east interval count is nearest integer to extent/spacing (>=1)", "north interval count is nearest integer to extent/spacing (>=1)"], "found_by": "solver model (dyadic) for claim \'east interval count is nearest integer to extent/spacing (>=1)\'"}')
if __name__ == '__main__':
    from symx.harness import replay_payload
    sys.exit(replay_payload(PAYLOAD))
