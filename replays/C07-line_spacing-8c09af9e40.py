#!/verif/.venv/bin/python
"""Replay of a counterexample on the real, unstubbed verde code (plain numpy inputs).
Run: /verif/check replay /verif/replays/C07-line_spacing-8c09af9e40.py
Exit status 1 and a list of failed claims if the violation reproduces."""
import json, sys
sys.path.insert(0, '/verif')
PAYLOAD = json.loads('{"property": "C07", "harness": "line_spacing", "cfg": {"adjust": "spacing", "pixel": false, "maxq": "7/2"}, "inputs": {"start": 0.0, "stop": 0.5454545454545454, "spacing": 0.18181818181818182}, "failed_claims": ["line interval count is nearest integer to extent/spacing (>=1)"], "found_by": "witness replay of a path whose symbolic claims were all valid"}')
if __name__ == '__main__':
    from symx.harness import replay_payload
    sys.exit(replay_payload(PAYLOAD))
