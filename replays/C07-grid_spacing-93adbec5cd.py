#!/verif/.venv/bin/python
"""Replay of a counterexample on the real, unstubbed verde code (plain numpy inputs).
Run: /verif/check replay /verif/replays/C07-grid_spacing-93adbec5cd.py
Exit status 1 and a list of failed claims if the violation reproduces."""
import json, sys
sys.path.insert(0, '/verif')
PAYLOAD = json.loads('{"property": "C07", "harness": "grid_spacing", "cfg": {"adjust": "region", "pixel": true, "per_direction": false, "maxq": "5/2"}, "inputs": {"W": 1000.0, "E": 1000.0, "S": -1000.0, "N": 1000.0, "spacing": 1000.0}, "failed_claims": ["east node k = first + k*step", "north adjust=region keeps the requested step", "north node k = first + k*step", "north node k = first + k*step"], "found_by": "solver model (dyadic) for claim \'east node k = first + k*step\'"}')
if __name__ == '__main__':
    from symx.harness import replay_payload
    sys.exit(replay_payload(PAYLOAD))
