#!/verif/.venv/bin/python
"""Replay of a counterexample on the real, unstubbed verde code (plain numpy inputs).
Run: /verif/check replay /verif/replays/C07-grid_spacing-10ee0687e2.py
Exit status 1 and a list of failed claims if the violation reproduces."""
import json, sys
sys.path.insert(0, '/verif')
PAYLOAD = json.loads('{"property": "C07", "harness": "grid_spacing", "cfg": {"adjust": "spacing", "pixel": false, "per_direction": true, "maxq": "5/2"}, "inputs": {"W": -999.0, "E": -998.0, "S": -1000.0, "N": -999.0, "spacing_n": 1.0, "spacing_e": 1.0}, "failed_claims": ["east interval count is nearest integer to extent/spacing (>=1)", "north interval count is nearest integer to extent/spacing (>=1)"], "found_by": "solver model (dyadic) for claim \'north interval count is nearest integer to extent/spacing (>=1)\'"}')
if __name__ == '__main__':
    from symx.harness import replay_payload
    sys.exit(replay_payload(PAYLOAD))
