#!/verif/.venv/bin/python
"""Replay of a counterexample on the real, unstubbed verde code (plain numpy inputs).
Run: /verif/check replay /verif/replays/C07-line_spacing-ecfcd4497c.py
Exit status 1 and a list of failed claims if the violation reproduces."""
import json, sys
sys.path.insert(0, '/verif')
PAYLOAD = json.loads('{"property": "C07", "harness": "line_spacing", "cfg": {"adjust": "spacing", "pixel": false, "maxq": "7/2"}, "inputs": {"start": -1000.0, "stop": 1000.0, "spacing": 799.0}, "failed_claims": ["line interval count is nearest integer to extent/spacing (>=1)"], "found_by": "solver model (dyadic) for claim \'line interval count is nearest integer to extent/spacing (>=1)\'"}')
if __name__ == '__main__':
    from symx.harness import replay_payload
    sys.exit(replay_payload(PAYLOAD))
