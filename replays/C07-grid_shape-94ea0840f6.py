#!/verif/.venv/bin/python
"""Replay of a counterexample on the real, unstubbed verde code (plain numpy inputs).
Run: /verif/check replay /verif/replays/C07-grid_shape-94ea0840f6.py
Exit status 1 and a list of failed claims if the violation reproduces."""
import json, sys
sys.path.insert(0, '/verif')
PAYLOAD = json.loads('{"property": "C07", "harness": "grid_shape", "cfg": {"shape": [3, 2], "pixel": true, "extra": 1}, "inputs": {"W": -1000.0, "E": -1000.0, "S": -999.0, "N": -998.0, "x0": -1000.0, "x1": 0.0}, "failed_claims": ["north node k = first + k*step", "north node k = first + k*step", "north node k = first + k*step", "north last pixel centre is half a step before stop"], "found_by": "solver model (dyadic) for claim \'north node k = first + k*step\'"}')
if __name__ == '__main__':
    from symx.harness import replay_payload
    sys.exit(replay_payload(PAYLOAD))
