"""
Contract stubs for compiled dependencies. Each returns fresh symbolic values
constrained only by the library's documented contract and records the arguments
verde passed. In concrete (replay) mode none of these is installed.
"""
import numpy as np
import z3

from . import engine as E
from .engine import SymReal, SymInt, SymNum, SymBool, T


def _objarr(x):
    return np.asarray(x, dtype=object)


# ----------------------------------------------------------------------------
# RNG: sklearn.utils.check_random_state(seed).uniform(lo, hi, n)
# ----------------------------------------------------------------------------
class StubRandomState:
    """uniform(lo, hi, n) = lo + (hi-lo)*u with u = U(seed, call#, i) in [0, 1):
    the same seed gives the same draws (numpy RandomState contract)."""

    def __init__(self, seed):
        self.seed = seed
        self.calls = 0

    def uniform(self, low, high, size):
        n = int(size)
        out = np.empty(n, dtype=object)
        for i in range(n):
            u = z3.Real("U!%s!%d!%d" % (self.seed, self.calls, i))
            E.ENGINE.add(u >= 0, u < 1)
            out[i] = low + (high - low) * SymReal(u)
        self.calls += 1
        return out


def stub_check_random_state(seed):
    if isinstance(seed, StubRandomState):
        return seed
    return StubRandomState(seed)


# ----------------------------------------------------------------------------
# scipy.spatial.cKDTree
# ----------------------------------------------------------------------------
class DistSq(SymReal):
    """A Euclidean distance known through its square. Comparisons are rewritten to
    squared form (d <= m  <=>  m >= 0 and d^2 <= m^2); arithmetic use creates the
    sqrt symbol."""

    __slots__ = ("sq", "_made")

    def __init__(self, sq):
        self.sq = sq
        self._made = False
        r = E.SQRT(sq)
        SymReal.__init__(self, r)

    def _ensure(self):
        if not self._made:
            self._made = True
            E.ENGINE.add(self.t >= 0, self.t * self.t == self.sq)

    def _cmpsq(self, o, op):
        if isinstance(o, DistSq):
            a, b = self.sq, o.sq
            return SymBool(z3.simplify(op(a, b)))
        m = T(o)
        a = self.sq
        if op == "le":
            return SymBool(z3.simplify(z3.And(m >= 0, a <= m * m)))
        if op == "lt":
            return SymBool(z3.simplify(z3.And(m > 0, a < m * m)))
        if op == "ge":
            return SymBool(z3.simplify(z3.Or(m <= 0, a >= m * m)))
        if op == "gt":
            return SymBool(z3.simplify(z3.Or(m < 0, a > m * m)))
        if op == "eq":
            return SymBool(z3.simplify(z3.And(m >= 0, a == m * m)))
        raise E.HarnessError(op)

    def __le__(self, o):
        return self._cmpsq(o, (lambda a, b: a <= b) if isinstance(o, DistSq) else "le")

    def __lt__(self, o):
        return self._cmpsq(o, (lambda a, b: a < b) if isinstance(o, DistSq) else "lt")

    def __ge__(self, o):
        return self._cmpsq(o, (lambda a, b: a >= b) if isinstance(o, DistSq) else "ge")

    def __gt__(self, o):
        return self._cmpsq(o, (lambda a, b: a > b) if isinstance(o, DistSq) else "gt")

    def __eq__(self, o):
        return self._cmpsq(o, (lambda a, b: a == b) if isinstance(o, DistSq) else "eq")

    def __hash__(self):
        return id(self)

    def _bin(self, o, f, swap=False):
        self._ensure()
        if isinstance(o, DistSq):
            o._ensure()
        return SymReal._bin(self, o, f, swap)


class StubKDTree:
    """cKDTree(points).query(X, k): indices of the k nearest points in Euclidean
    distance, ascending, ties free; distances = ||x - p_idx||. query_ball_point
    with p=inf: exactly the points with max(|dx|,|dy|) <= r."""

    instances = []

    def __init__(self, points, **kw):
        self.points = _objarr(points)
        if self.points.ndim != 2:
            raise ValueError("data must be 2 dimensions")
        self.n = self.points.shape[0]
        self.m = self.points.shape[1]
        self.data = self.points
        StubKDTree.instances.append(self)
        self.queries = []

    def _d2(self, q, j):
        s = 0
        for c in range(self.m):
            d = T(q[c]) - T(self.points[j, c])
            s = s + d * d
        return z3.simplify(s) if z3.is_expr(s) else z3.RealVal(s)

    def query(self, X, k=1, **kw):
        X = _objarr(X)
        single = X.ndim == 1
        X2 = np.atleast_2d(X)
        if X2.shape[1] != self.m:
            raise ValueError("x must consist of vectors of length %d" % self.m)
        ks = int(k)
        self.queries.append(("query", X2.copy(), ks))
        mq = X2.shape[0]
        idx = np.empty((mq, ks), dtype=np.intp)
        dist = np.empty((mq, ks), dtype=object)
        eng = E.ENGINE
        for r in range(mq):
            d2 = [self._d2(X2[r], j) for j in range(self.n)]
            chosen = []
            for c in range(ks):
                if c >= self.n:
                    # scipy pads with index n and infinite distance
                    raise E.HarnessError("k larger than the number of points is not modelled")
                L = eng.new("nn", z3.IntSort())
                eng.add(L >= 0, L < self.n)
                for prev in chosen:
                    eng.add(L != prev)
                # the chosen one is at least as close as every point not chosen before
                for j in range(self.n):
                    eng.add(
                        z3.Implies(
                            L == j,
                            z3.And(
                                *[
                                    d2[j] <= d2[o]
                                    for o in range(self.n)
                                    if o != j and o not in chosen
                                ]
                            ),
                        )
                    )
                v = eng.concretize_int(L)
                chosen.append(v)
                idx[r, c] = v
                dist[r, c] = DistSq(d2[v])
        if ks == 1 and not isinstance(k, (list, tuple)):
            idx = idx[:, 0]
            dist = dist[:, 0]
        if single:
            idx = idx[0]
            dist = dist[0]
        return dist, idx

    def query_ball_point(self, X, r, p=2.0, **kw):
        if p != np.inf:
            raise E.HarnessError("query_ball_point only modelled for p=inf")
        X = np.atleast_2d(_objarr(X))
        self.queries.append(("ball", X.copy(), r))
        out = np.empty(X.shape[0], dtype=object)
        for q in range(X.shape[0]):
            members = []
            for j in range(self.n):
                inside = True
                for c in range(self.m):
                    if not (abs(X[q, c] - self.points[j, c]) <= r):
                        inside = False
                        break
                if inside:
                    members.append(j)
            out[q] = members
        return out


# ----------------------------------------------------------------------------
# verde.coordinates.block_split by the contract that C08 verifies
# ----------------------------------------------------------------------------
class BlockSplitContract:
    """block centres come from the real grid_coordinates(pixel_register=True);
    the label of a point is the index (row-major from the south-west) of a block
    whose closed cell (extended outwards for border blocks) contains it. Labels
    are concretised by forking. Assume-guarantee: C08 checks this contract
    against the real block_split."""

    def __init__(self):
        self.calls = []

    def __call__(self, coordinates, spacing=None, adjust="spacing", region=None, shape=None):
        from verde import coordinates as vc
        from verde.base.utils import check_coordinates, n_1d_arrays

        coordinates = check_coordinates(coordinates)[:2]
        if region is None:
            region = vc.get_region(coordinates)
        block_coords = vc.grid_coordinates(region, spacing=spacing, shape=shape, adjust=adjust, pixel_register=True)
        nn, ne = block_coords[0].shape
        w, s = region[0], region[2]
        # block widths from the centres (first centre is half a block from the bound)
        we = (block_coords[0][0, 0] - w) * 2
        hn = (block_coords[1][0, 0] - s) * 2
        ev, nv = n_1d_arrays(coordinates, 2)
        eng = E.ENGINE
        labels = np.empty(ev.size, dtype=int)
        for p in range(ev.size):
            L = eng.new("blk", z3.IntSort())
            eng.add(L >= 0, L < nn * ne)
            for i in range(nn):
                for j in range(ne):
                    conds = []
                    if j > 0:
                        conds.append(T(ev[p]) >= T(w + j * we))
                    if j < ne - 1:
                        conds.append(T(ev[p]) <= T(w + (j + 1) * we))
                    if i > 0:
                        conds.append(T(nv[p]) >= T(s + i * hn))
                    if i < nn - 1:
                        conds.append(T(nv[p]) <= T(s + (i + 1) * hn))
                    eng.add(z3.Implies(L == i * ne + j, z3.And(*conds) if conds else z3.BoolVal(True)))
            labels[p] = eng.concretize_int(L)
        self.calls.append((coordinates, region, (nn, ne), labels.copy()))
        return n_1d_arrays(block_coords, len(block_coords)), labels


def in_block(ctx, e, n, region, shape, k):
    "assumption helper: point (e, n) lies strictly inside block k of the shape=(nn, ne) layout of region"
    from .engine import And, gt, lt

    nn, ne = shape
    i, j = divmod(k, ne)
    w, ee, s, no = region
    we = (ee - w) / ne
    hn = (no - s) / nn
    return And(gt(e, w + j * we), lt(e, w + (j + 1) * we), gt(n, s + i * hn), lt(n, s + (i + 1) * hn))
