"""
Contract stubs for compiled dependencies. Each returns fresh symbolic values
constrained only by the library's documented contract and records the arguments
verde passed. In concrete (replay) mode none of these is installed.
"""
import contextlib

import numpy as np
import z3

from . import engine as E
from .engine import SymReal, SymInt, SymNum, SymBool, T


def _objarr(x):
    return np.asarray(x, dtype=object)


# ----------------------------------------------------------------------------
# RNG: sklearn.utils.check_random_state(seed).uniform(lo, hi, n)
# ----------------------------------------------------------------------------
class StubRandomState:
    """uniform(lo, hi, n) = lo + (hi-lo)*u with u = U(seed, call#, i) in [0, 1):
    the same seed gives the same draws (numpy RandomState contract)."""

    def __init__(self, seed):
        self.seed = seed
        self.calls = 0

    def uniform(self, low, high, size):
        n = int(size)
        out = np.empty(n, dtype=object)
        for i in range(n):
            u = z3.Real("U!%s!%d!%d" % (self.seed, self.calls, i))
            E.ENGINE.add(u >= 0, u < 1)
            out[i] = low + (high - low) * SymReal(u)
        self.calls += 1
        return out


def stub_check_random_state(seed):
    if isinstance(seed, StubRandomState):
        return seed
    return StubRandomState(seed)


# ----------------------------------------------------------------------------
# scipy.spatial.cKDTree
# ----------------------------------------------------------------------------
class DistSq(SymReal):
    """A Euclidean distance known through its square. Comparisons are rewritten to
    squared form (d <= m  <=>  m >= 0 and d^2 <= m^2); any arithmetic use (access to
    the term) creates the sqrt symbol with r >= 0 and r^2 = d^2."""

    __slots__ = ("sq", "_made", "_root")

    def __init__(self, sq):
        self.sq = sq
        self._made = False
        self._root = E.SQRT(sq)
        self.tag = None

    @property
    def t(self):
        self._ensure()
        return self._root

    @t.setter
    def t(self, v):
        self._root = v

    def _ensure(self):
        if not self._made:
            self._made = True
            E.ENGINE.add(self._root >= 0, self._root * self._root == self.sq)

    def _cmpsq(self, o, op):
        if isinstance(o, DistSq):
            a, b = self.sq, o.sq
            return SymBool(z3.simplify(op(a, b)))
        m = T(o)
        a = self.sq
        if op == "le":
            return SymBool(z3.simplify(z3.And(m >= 0, a <= m * m)))
        if op == "lt":
            return SymBool(z3.simplify(z3.And(m > 0, a < m * m)))
        if op == "ge":
            return SymBool(z3.simplify(z3.Or(m <= 0, a >= m * m)))
        if op == "gt":
            return SymBool(z3.simplify(z3.Or(m < 0, a > m * m)))
        if op == "eq":
            return SymBool(z3.simplify(z3.And(m >= 0, a == m * m)))
        raise E.HarnessError(op)

    def __le__(self, o):
        return self._cmpsq(o, (lambda a, b: a <= b) if isinstance(o, DistSq) else "le")

    def __lt__(self, o):
        return self._cmpsq(o, (lambda a, b: a < b) if isinstance(o, DistSq) else "lt")

    def __ge__(self, o):
        return self._cmpsq(o, (lambda a, b: a >= b) if isinstance(o, DistSq) else "ge")

    def __gt__(self, o):
        return self._cmpsq(o, (lambda a, b: a > b) if isinstance(o, DistSq) else "gt")

    def __eq__(self, o):
        return self._cmpsq(o, (lambda a, b: a == b) if isinstance(o, DistSq) else "eq")

    def __hash__(self):
        return id(self)

    def __repr__(self):
        return "DistSq(sqrt(%s))" % self.sq


class StubKDTree:
    """cKDTree(points).query(X, k): indices of the k nearest points in Euclidean
    distance, ascending, ties free; distances = ||x - p_idx||. query_ball_point
    with p=inf: exactly the points with max(|dx|,|dy|) <= r."""

    instances = []

    def __init__(self, points, **kw):
        self.points = _objarr(points)
        if self.points.ndim != 2:
            raise ValueError("data must be 2 dimensions")
        self.n = self.points.shape[0]
        self.m = self.points.shape[1]
        self.data = self.points
        StubKDTree.instances.append(self)
        self.queries = []

    def _d2(self, q, j, p=2):
        "squared Minkowski-p distance (p in 1, 2, inf), so that DistSq's square root is the distance itself"
        s = 0
        for c in range(self.m):
            d = T(q[c]) - T(self.points[j, c])
            if p == 2:
                s = s + d * d
            else:
                a = z3.If(d >= 0, d, -d)
                s = (s + a) if p == 1 else (a if c == 0 else z3.If(a >= s, a, s))
        if p != 2:
            s = s * s
        return z3.simplify(s) if z3.is_expr(s) else z3.RealVal(s)

    def query(self, X, k=1, distance_upper_bound=None, **kw):
        """distance_upper_bound=B: only neighbours strictly closer than B are returned; missing ones are
        reported with index n and infinite distance (scipy's documented behaviour)"""
        pnorm = kw.get("p", 2)
        if pnorm not in (1, 2, np.inf) or kw.get("eps", 0) != 0:
            raise E.HarnessError("cKDTree.query with p=%r eps=%r is not modelled (p in 1, 2, inf and exact search only)" % (pnorm, kw.get("eps", 0)))
        X = _objarr(X)
        single = X.ndim == 1
        X2 = np.atleast_2d(X)
        if X2.shape[1] != self.m:
            raise ValueError("x must consist of vectors of length %d" % self.m)
        ks = int(k)
        self.queries.append(("query", X2.copy(), ks))
        mq = X2.shape[0]
        idx = np.empty((mq, ks), dtype=np.intp)
        dist = np.empty((mq, ks), dtype=object)
        eng = E.ENGINE
        for r in range(mq):
            d2 = [self._d2(X2[r], j, pnorm) for j in range(self.n)]
            chosen = []
            for c in range(ks):
                if c >= self.n:
                    # scipy pads with index n and infinite distance
                    raise E.HarnessError("k larger than the number of points is not modelled")
                L = eng.new("nn", z3.IntSort())
                eng.add(L >= 0, L < self.n)
                for prev in chosen:
                    eng.add(L != prev)
                # the chosen one is at least as close as every point not chosen before
                for j in range(self.n):
                    eng.add(
                        z3.Implies(
                            L == j,
                            z3.And(
                                *[
                                    d2[j] <= d2[o]
                                    for o in range(self.n)
                                    if o != j and o not in chosen
                                ]
                            ),
                        )
                    )
                v = eng.concretize_int(L)
                chosen.append(v)
                dv = DistSq(d2[v])
                if distance_upper_bound is not None and not bool(dv < distance_upper_bound):
                    idx[r, c] = self.n
                    dist[r, c] = float("inf")
                else:
                    idx[r, c] = v
                    dist[r, c] = dv
        if ks == 1 and not isinstance(k, (list, tuple)):
            idx = idx[:, 0]
            dist = dist[:, 0]
        if single:
            idx = idx[0]
            dist = dist[0]
        return dist, idx

    def query_ball_point(self, X, r, p=2.0, **kw):
        if p != np.inf:
            raise E.HarnessError("query_ball_point only modelled for p=inf")
        X = np.atleast_2d(_objarr(X))
        if X.shape[1] != self.m:
            raise ValueError("x must consist of vectors of length %d but has shape %s" % (self.m, X.shape))
        self.queries.append(("ball", X.copy(), r))
        out = np.empty(X.shape[0], dtype=object)
        for q in range(X.shape[0]):
            members = []
            for j in range(self.n):
                inside = True
                for c in range(self.m):
                    if not (abs(X[q, c] - self.points[j, c]) <= r):
                        inside = False
                        break
                if inside:
                    members.append(j)
            out[q] = members
        return out


# ----------------------------------------------------------------------------
# verde.coordinates.block_split by the contract that C08 verifies
# ----------------------------------------------------------------------------
class Recorder:
    "pass-through wrapper that records the arguments and result of every call (works in the symbolic run and in replays)"

    def __init__(self, fn):
        self.fn = fn
        self.calls = []

    def __call__(self, *args, **kwargs):
        result = self.fn(*args, **kwargs)
        self.calls.append({"args": args, "kwargs": kwargs, "result": result})
        return result


@contextlib.contextmanager
def recording(module, name):
    "wrap module.name (whatever is bound there now: the real function or its contract) in a Recorder for the duration"
    old = getattr(module, name)
    rec = Recorder(old)
    setattr(module, name, rec)
    try:
        yield rec
    finally:
        setattr(module, name, old)


class BlockSplitContract:
    """block centres come from the real grid_coordinates(pixel_register=True);
    the label of a point is the index (row-major from the south-west) of a block
    whose closed cell (extended outwards for border blocks) contains it. Labels
    are concretised by forking. Assume-guarantee: C08 checks this contract
    against the real block_split."""

    def __init__(self):
        self.calls = []

    def __call__(self, coordinates, spacing=None, adjust="spacing", region=None, shape=None):
        from verde import coordinates as vc
        from verde.base.utils import check_coordinates, n_1d_arrays

        coordinates = check_coordinates(coordinates)[:2]
        if region is None:
            region = vc.get_region(coordinates)
        block_coords = vc.grid_coordinates(region, spacing=spacing, shape=shape, adjust=adjust, pixel_register=True)
        nn, ne = block_coords[0].shape
        w, s = region[0], region[2]
        # block widths from the centres (first centre is half a block from the bound)
        we = (block_coords[0][0, 0] - w) * 2
        hn = (block_coords[1][0, 0] - s) * 2
        ev, nv = n_1d_arrays(coordinates, 2)
        eng = E.ENGINE
        labels = np.empty(ev.size, dtype=int)
        for p in range(ev.size):
            L = eng.new("blk", z3.IntSort())
            eng.add(L >= 0, L < nn * ne)
            for i in range(nn):
                for j in range(ne):
                    conds = []
                    if j > 0:
                        conds.append(T(ev[p]) >= T(w + j * we))
                    if j < ne - 1:
                        conds.append(T(ev[p]) <= T(w + (j + 1) * we))
                    if i > 0:
                        conds.append(T(nv[p]) >= T(s + i * hn))
                    if i < nn - 1:
                        conds.append(T(nv[p]) <= T(s + (i + 1) * hn))
                    eng.add(z3.Implies(L == i * ne + j, z3.And(*conds) if conds else z3.BoolVal(True)))
            labels[p] = eng.concretize_int(L)
        self.calls.append((coordinates, region, (nn, ne), labels.copy()))
        return n_1d_arrays(block_coords, len(block_coords)), labels


def in_block(ctx, e, n, region, shape, k):
    "assumption helper: point (e, n) lies strictly inside block k of the shape=(nn, ne) layout of region"
    from .engine import And, gt, lt

    nn, ne = shape
    i, j = divmod(k, ne)
    w, ee, s, no = region
    we = (ee - w) / ne
    hn = (no - s) / nn
    return And(gt(e, w + j * we), lt(e, w + (j + 1) * we), gt(n, s + i * hn), lt(n, s + (i + 1) * hn))


# ----------------------------------------------------------------------------
# sklearn: StandardScaler / LinearRegression / Ridge as used by verde.base.least_squares
# ----------------------------------------------------------------------------
def _h(parts):
    import hashlib

    return hashlib.sha1("|".join(parts).encode()).hexdigest()[:12]


REGRESSION_LOG = []  # one record per regressor.fit: dict(X, y, w, alpha, coef, scaler)
SCALER_LOG = []
SCALE_CONTRACT = {"exact": True}
SCALE_HINT = []  # ghost scale vectors a harness may supply (each checked against the contract)
LAST_SCALE = {"scale": None}


class StubStandardScaler:
    """StandardScaler(copy, with_mean=False, with_std=True).fit_transform(X):
    scale_[j] = s_j > 0 with s_j^2 = var(X[:, j]) (population variance), or 1 for a
    constant column; returns X / scale_, written into X iff copy=False."""

    def __init__(self, copy=True, with_mean=True, with_std=True):
        if with_mean or not with_std:
            raise E.HarnessError("StandardScaler only modelled with with_mean=False, with_std=True")
        self.copy = copy

    def fit_transform(self, X, y=None):
        Xo = X
        X = np.asarray(X)
        if X.ndim != 2:
            raise ValueError("Expected 2D array")
        n, m = X.shape
        eng = E.ENGINE
        scale = np.empty(m, dtype=object)
        hint = SCALE_HINT.pop(0) if SCALE_HINT else None
        for j in range(m):
            col = [T(X[i, j]) for i in range(n)]
            mean = sum(col) / n
            var = sum((c - mean) * (c - mean) for c in col) / n
            if hint is not None:
                # ghost witness supplied by the harness: it must itself satisfy the contract (obligation)
                s = T(hint[j])
                eng.obligations.append(("ghost scale satisfies the StandardScaler contract (s > 0, s^2 = var or constant column)", z3.And(s > 0, z3.If(var == 0, s == 1, s * s == var))))
            else:
                # functional stub: the same column gives the same scale symbol (sklearn is deterministic)
                s = z3.Real("scale!%s" % _h([z3.simplify(c).sexpr() for c in col]))
                eng.add(s > 0)
                if SCALE_CONTRACT["exact"]:
                    eng.add(z3.If(z3.simplify(var) == 0, s == 1, s * s == z3.simplify(var)))
            scale[j] = SymReal(s)
        self.scale_ = scale
        out = X if not self.copy else X.astype(object).copy()
        if out.dtype != object:
            raise E.HarnessError("in-place scaling of a non-object array in the symbolic run")
        for j in range(m):
            for i in range(n):
                out[i, j] = out[i, j] / scale[j]
        SCALER_LOG.append({"input": Xo, "output": out, "scale": scale, "copy": self.copy})
        LAST_SCALE["scale"] = scale
        return out


class _StubRegr:
    alpha_default = None

    def __init__(self, alpha=None, fit_intercept=True, **kw):
        if fit_intercept:
            raise E.HarnessError("regression only modelled with fit_intercept=False")
        self.alpha = alpha
        self.fit_intercept = fit_intercept

    def fit(self, X, y, sample_weight=None):
        X = np.asarray(X)
        y = np.asarray(y)
        n, m = X.shape
        if y.shape != (n,):
            raise ValueError("Found input variables with inconsistent numbers of samples: [%d, %s]" % (n, y.shape))
        if sample_weight is not None:
            sample_weight = np.asarray(sample_weight)
            if sample_weight.shape != (n,):
                raise ValueError("sample_weight.shape == %s, expected (%d,)!" % (sample_weight.shape, n))
        eng = E.ENGINE
        coef = np.empty(m, dtype=object)
        ghost = LAST_SCALE["scale"]
        free = []
        # functional stub: equal arguments give the same solution symbols (sklearn is deterministic)
        key = _h([type(self).__name__, repr(self.alpha) if not isinstance(self.alpha, SymNum) else T(self.alpha).sexpr()] + [z3.simplify(T(v)).sexpr() for v in X.ravel()] + [z3.simplify(T(v)).sexpr() for v in y] + ([z3.simplify(T(v)).sexpr() for v in sample_weight] if sample_weight is not None else ["noweights"]))
        for j in range(m):
            q = SymReal(z3.Real("coef!%s!%d" % (key, j)))
            free.append(q)
            # reparametrise the unknown as q * scale_j (scale_j > 0, so no generality is lost): verde's
            # coef_ / scale_ then simplifies to q without a division
            coef[j] = q * ghost[j] if ghost is not None and len(ghost) == m else q
        LAST_SCALE["scale"] = None
        Xt = [[T(X[i, j]) for j in range(m)] for i in range(n)]
        yt = [T(v) for v in y]
        wt = [T(v) for v in sample_weight] if sample_weight is not None else [z3.RealVal(1)] * n
        resid = [sum(E.zmul(Xt[i][k], coef[k].t) for k in range(m)) - yt[i] for i in range(n)]
        eqs = []
        for j in range(m):
            h = sum(wt[i] * Xt[i][j] * resid[i] for i in range(n))
            if self.alpha is not None:
                h = h + T(self.alpha) * coef[j].t
            eqs.append(h)
            if ghost is not None and len(ghost) == m:
                # assert scale_j * h == 0 instead (equivalent, scale_j > 0): the scaled columns cancel their
                # denominators syntactically and the system stays linear in the unknowns for concrete matrices
                sj = T(ghost[j])
                hs = sum(wt[i] * E.zmul(Xt[i][j], sj) * resid[i] for i in range(n))
                if self.alpha is not None:
                    hs = hs + T(self.alpha) * coef[j].t * sj
                eng.add(hs == 0)
            else:
                eng.add(h == 0)
        self.coef_ = coef
        REGRESSION_LOG.append({"X": X, "y": y, "w": sample_weight, "alpha": self.alpha, "coef": coef, "free": free, "normal_eqs": eqs, "kind": type(self).__name__})
        return self


class StubLinearRegression(_StubRegr):
    """LinearRegression(fit_intercept=False).fit(X, y, sample_weight): coef_ satisfies
    the normal equations X^T W X p = X^T W y (necessary and sufficient for a
    minimiser of the convex weighted least-squares objective)."""

    def __init__(self, fit_intercept=True, **kw):
        _StubRegr.__init__(self, alpha=None, fit_intercept=fit_intercept)


class StubRidge(_StubRegr):
    "Ridge(alpha, fit_intercept=False): X^T W X p + alpha p = X^T W y"

    def __init__(self, alpha=1.0, fit_intercept=True, **kw):
        _StubRegr.__init__(self, alpha=alpha, fit_intercept=fit_intercept)


def regression_globals():
    import sys
    import verde.base.least_squares  # noqa: F401

    mod = sys.modules["verde.base.least_squares"]
    return {(mod, "StandardScaler"): StubStandardScaler, (mod, "LinearRegression"): StubLinearRegression, (mod, "Ridge"): StubRidge}


def reset_logs():
    del REGRESSION_LOG[:]
    del SCALER_LOG[:]
    del SCALE_HINT[:]
    LAST_SCALE["scale"] = None
    StubKDTree.instances[:] = []
    INTERP_LOG[:] = []
    _INTERP_IDS.clear()


# ----------------------------------------------------------------------------
# scipy.interpolate: LinearNDInterpolator / CloughTocher2DInterpolator / NearestNDInterpolator
# ----------------------------------------------------------------------------
INTERP = z3.Function("interp", z3.IntSort(), z3.RealSort(), z3.RealSort(), z3.RealSort())
INTERP_LOG = []
_INTERP_IDS = {}


class _StubInterp:
    """An interpolator is an uninterpreted function of (class, points, values,
    options) evaluated at the query: equal arguments give equal results
    (congruence) and, for pairwise-distinct points, f(p_i) = v_i (the documented
    interpolation property of the three scipy classes)."""

    kind = "?"

    def __init__(self, points, values, **kw):
        self.points = np.asarray(points, dtype=object)
        self.values = np.asarray(values, dtype=object)
        self.kw = dict(kw)
        if self.points.ndim != 2 or self.points.shape[1] != 2:
            raise ValueError("points must be (n, 2)")
        if self.values.shape != (self.points.shape[0],):
            raise ValueError("different number of values and points")
        if self.kind != "NearestNDInterpolator" and self.points.shape[0] < 3:
            raise RuntimeError("QhullError (modelled): not enough points (%d) to construct initial simplex" % self.points.shape[0])
        key = (self.kind, tuple(sorted((k, repr(v)) for k, v in kw.items())), tuple(z3.simplify(T(x)).sexpr() for x in self.points.ravel()), tuple(z3.simplify(T(x)).sexpr() for x in self.values.ravel()))
        self.iid = _INTERP_IDS.setdefault(key, len(_INTERP_IDS) + 1)
        eng = E.ENGINE
        n = self.points.shape[0]
        for i in range(n):
            distinct = z3.And(*[z3.Or(T(self.points[i, 0]) != T(self.points[k, 0]), T(self.points[i, 1]) != T(self.points[k, 1])) for k in range(n) if k != i]) if n > 1 else z3.BoolVal(True)
            eng.add(z3.Implies(distinct, INTERP(z3.IntVal(self.iid), T(self.points[i, 0]), T(self.points[i, 1])) == T(self.values[i])))
        INTERP_LOG.append(self)

    def __call__(self, *args):
        if len(args) == 1:
            xi = args[0]
        else:
            xi = args
        e, n = xi
        eb, nb = np.broadcast_arrays(np.asarray(e, dtype=object), np.asarray(n, dtype=object))
        out = np.empty(eb.shape, dtype=object)
        for idx in np.ndindex(*eb.shape):
            out[idx] = SymReal(INTERP(z3.IntVal(self.iid), T(eb[idx]), T(nb[idx])))
        return out


class StubLinearND(_StubInterp):
    """piecewise-linear interpolation is a convex combination of the data values: every value it returns
    (inside the hull) lies between the smallest and the largest datum"""

    kind = "LinearNDInterpolator"

    def __call__(self, *args):
        out = _StubInterp.__call__(self, *args)
        vals = [T(v) for v in self.values.ravel()]
        for v in out.ravel():
            E.ENGINE.add(z3.Or(*[v.t >= w for w in vals]), z3.Or(*[v.t <= w for w in vals]))
        return out


class StubCloughTocher(_StubInterp):
    kind = "CloughTocher2DInterpolator"


class StubNearestND(_StubInterp):
    kind = "NearestNDInterpolator"


def interp_globals():
    return {
        ("verde.scipygridder", "LinearNDInterpolator"): StubLinearND,
        ("verde.scipygridder", "CloughTocher2DInterpolator"): StubCloughTocher,
        ("verde.scipygridder", "NearestNDInterpolator"): StubNearestND,
    }


def kdtree_globals():
    return {("verde.utils", "cKDTree"): StubKDTree}


# ----------------------------------------------------------------------------
# sklearn.metrics.check_scoring as used by verde.base.utils.score_estimator
# ----------------------------------------------------------------------------
SCORER_LOG = []


def metric_formula(scoring, y_pred, y_true, w):
    """closed forms of the two scorers verde documents (r2 and neg_mean_squared_error); any other
    scorer is an uninterpreted function of (name, predictions, truth, weights) keyed syntactically"""
    from .engine import SymNum

    yp = list(np.ravel(y_pred))
    yt = list(np.ravel(y_true))
    n = len(yt)
    ws = list(np.ravel(w)) if w is not None else [1] * n
    sw = sum(ws)
    if scoring in ("neg_mean_squared_error",):
        return -(sum(wi * (a - b) * (a - b) for wi, a, b in zip(ws, yt, yp)) / sw)
    if scoring in ("r2", None):
        mean = sum(wi * a for wi, a in zip(ws, yt)) / sw
        num = sum(wi * (a - b) * (a - b) for wi, a, b in zip(ws, yt, yp))
        den = sum(wi * (a - mean) * (a - mean) for wi, a in zip(ws, yt))
        return 1 - num / den
    if any(isinstance(v, SymNum) for v in yp + yt + ws):
        import hashlib

        key = "|".join([str(scoring)] + [z3.simplify(T(v)).sexpr() for v in yp + yt + ws])
        return SymReal(z3.Real("metric!%s" % hashlib.sha1(key.encode()).hexdigest()[:12]))
    raise E.HarnessError("concrete metric %r not modelled" % (scoring,))


def stub_check_scoring(estimator=None, scoring=None, **kw):
    def scorer(est, X, y_true, sample_weight=None):
        y_pred = est.predict(X)
        SCORER_LOG.append({"scoring": scoring, "y_pred": y_pred, "y_true": y_true, "w": sample_weight})
        return metric_formula(scoring, y_pred, y_true, sample_weight)

    return scorer


def scoring_globals():
    return {("verde.base.utils", "check_scoring"): stub_check_scoring}


# ----------------------------------------------------------------------------
# scipy.spatial.Delaunay as used by verde.mask.convexhull_mask
# ----------------------------------------------------------------------------
DELAUNAY_LOG = []
ORACLE_LOG = []


def _orient(a, b, c):
    "twice the signed area of triangle a, b, c (z3 terms)"
    return (b[0] - a[0]) * (c[1] - a[1]) - (b[1] - a[1]) * (c[0] - a[0])


class StubDelaunay:
    """Delaunay(P).find_simplex(X): != -1 for a query strictly inside the convex hull of the points
    as passed, -1 strictly outside, free on the boundary. The hull of up to 4 points is the union of
    the triangles of all point triples (orientation predicates). mode='oracle': one unconstrained
    boolean per query (geometry is then decided in another harness)."""

    mode = "geometry"
    oracle_free = None  # oracle mode: only the first `oracle_free` queries may be judged outside (a stated bound)

    def __init__(self, points, **kw):
        self.points = np.asarray(points, dtype=object)
        if self.points.ndim != 2 or self.points.shape[1] != 2:
            raise ValueError("points must be (n, 2)")
        if self.points.shape[0] < 3:
            raise ValueError("need at least 3 points")
        DELAUNAY_LOG.append({"points": self.points.copy(), "queries": []})
        self.rec = DELAUNAY_LOG[-1]

    def find_simplex(self, X, **kw):
        import itertools

        X = np.atleast_2d(np.asarray(X, dtype=object))
        self.rec["queries"].append(X.copy())
        eng = E.ENGINE
        out = np.empty(X.shape[0], dtype=np.intp)
        P = [(T(p[0]), T(p[1])) for p in self.points]
        for k in range(X.shape[0]):
            q = (T(X[k, 0]), T(X[k, 1]))
            L = eng.new("simplex", z3.IntSort())
            eng.add(L >= -1, L <= 0)
            if StubDelaunay.mode == "geometry":
                strictly_in = []
                strictly_out_all = []
                for (a, b, c) in itertools.combinations(P, 3):
                    o = _orient(a, b, c)
                    o1, o2, o3 = _orient(a, b, q), _orient(b, c, q), _orient(c, a, q)
                    inside = z3.Or(z3.And(o > 0, o1 > 0, o2 > 0, o3 > 0), z3.And(o < 0, o1 < 0, o2 < 0, o3 < 0))
                    outside = z3.Or(o == 0, z3.And(o > 0, z3.Or(o1 < 0, o2 < 0, o3 < 0)), z3.And(o < 0, z3.Or(o1 > 0, o2 > 0, o3 > 0)))
                    strictly_in.append(inside)
                    strictly_out_all.append(outside)
                eng.add(z3.Implies(z3.Or(*strictly_in), L == 0))
                eng.add(z3.Implies(z3.And(*strictly_out_all), L == -1))
            if StubDelaunay.mode == "oracle" and StubDelaunay.oracle_free is not None and k >= StubDelaunay.oracle_free:
                eng.add(L == 0)
            out[k] = eng.concretize_int(L)
        if StubDelaunay.mode == "oracle":
            ORACLE_LOG.append([bool(v != -1) for v in out])
        return out


def delaunay_globals():
    return {("verde.mask", "Delaunay"): StubDelaunay}
