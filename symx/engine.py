"""
symx engine: symbolic scalars (z3 Real / Int / Bool terms) that live inside real
numpy ``dtype=object`` arrays, path exploration by re-execution (DFS over
decision prefixes) and an SMT portfolio that discharges every branch
feasibility query and every claim.

The functions under test are verde's own function objects imported from /repo;
nothing here translates or copies them.
"""
import hashlib
import math
import os
import time
import threading
from collections import Counter
from fractions import Fraction

import numpy as np
import z3


class PathAbort(BaseException):
    "Current path is infeasible/abandoned (BaseException: verde's `except Exception` cannot swallow it)."


class Inconclusive(BaseException):
    "Solver could not decide a query (unknown / timeout) or a budget was exhausted."


class HarnessError(BaseException):
    "The harness met something it does not model (never reported as a violation)."


# ----------------------------------------------------------------------------
# Uninterpreted transcendental functions (OUT-TRANSC) and ground axioms
# ----------------------------------------------------------------------------
R = z3.RealSort()
LOG = z3.Function("log", R, R)
SIN = z3.Function("sin", R, R)
COS = z3.Function("cos", R, R)
POW = z3.Function("pow", R, R, R)
SQRT = z3.Function("sqrt", R, R)
ATAN2 = z3.Function("atan2", R, R, R)
HYPOT = z3.Function("hypot", R, R, R)
UF_EVAL = {
    "log": math.log,
    "sin": math.sin,
    "cos": math.cos,
    "pow": math.pow,
    "sqrt": math.sqrt,
    "atan2": math.atan2,
    "hypot": math.hypot,
}


def ackermannize(fs):
    """Replace applications of uninterpreted functions by fresh constants plus
    pairwise functional-consistency constraints, so that z3's one-shot nlsat
    pipeline applies (with UFs present z3 falls back to the incremental core)."""
    apps = {}
    seen = set()

    def visit(t):
        stack = [t]
        while stack:
            t = stack.pop()
            if t.get_id() in seen:
                continue
            seen.add(t.get_id())
            stack.extend(t.children())
            if (
                z3.is_app(t)
                and t.decl().kind() == z3.Z3_OP_UNINTERPRETED
                and t.num_args() > 0
            ):
                apps[t.get_id()] = t

    for f in fs:
        visit(f)
    if not apps:
        return list(fs), []
    allapps = sorted(apps.values(), key=lambda t: len(t.sexpr()))
    mapping = []
    for t in allapps:
        t2 = z3.substitute(t, *mapping) if mapping else t
        c = z3.Const("ack!%d" % len(mapping), t.sort())
        mapping.append((t2, c))

    def rew(e):
        for pair in mapping:
            e = z3.substitute(e, pair)
        return e

    cur = [rew(f) for f in fs]
    byname = {}
    for t, (_, c) in zip(allapps, mapping):
        byname.setdefault(t.decl().name(), []).append(
            ([rew(a) for a in t.children()], c)
        )
    extra = []
    for lst in byname.values():
        for i in range(len(lst)):
            for j in range(i + 1, len(lst)):
                ai, ci = lst[i]
                aj, cj = lst[j]
                extra.append(
                    z3.Implies(z3.And([x == y for x, y in zip(ai, aj)]), ci == cj)
                )
    return cur, extra


class Stats:
    def __init__(self):
        self.queries = 0
        self.solver_time = 0.0
        self.by_solver = Counter()
        self.unknown = 0
        self.paths = 0
        self.aborted_paths = 0
        self.branch_decisions = 0
        self.path_steps = 0
        self.claims = 0
        self.claims_valid = 0
        self.crosschecked = 0
        self.cross_disagree = 0

    def as_dict(self):
        return {
            "queries": self.queries,
            "solver_time_s": round(self.solver_time, 3),
            "by_solver": dict(self.by_solver),
            "unknown": self.unknown,
            "paths": self.paths,
            "aborted_paths": self.aborted_paths,
            "branch_decisions": self.branch_decisions,
            "path_steps": self.path_steps,
            "claims": self.claims,
            "claims_valid": self.claims_valid,
            "crosschecked_with_cvc5": self.crosschecked,
            "cross_disagreements": self.cross_disagree,
        }


def _z3_check(solver, timeout_ms):
    "solver.check() with the z3 timeout plus a watchdog interrupt (nlsat sometimes ignores the former)"
    solver.set("timeout", int(timeout_ms))
    ctx = solver.ctx
    timer = threading.Timer(timeout_ms / 1000.0 + 2.0, ctx.interrupt)
    timer.daemon = True
    timer.start()
    try:
        r = solver.check()
    except z3.Z3Exception:
        return z3.unknown
    finally:
        timer.cancel()
    return r


def cvc5_check(smt2_text, timeout_ms):
    "Decide an SMT-LIB2 script (as produced by z3's to_smt2) with the cvc5 wheel. Returns 'sat'/'unsat'/'unknown'."
    import cvc5

    slv = cvc5.Solver()
    slv.setOption("tlimit-per", str(int(timeout_ms)))
    slv.setOption("produce-models", "false")
    slv.setLogic("ALL")
    parser = cvc5.InputParser(slv)
    text = "\n".join(
        l
        for l in smt2_text.splitlines()
        if not l.startswith("(set-info") and not l.startswith("(set-logic")
    )
    parser.setStringInput(cvc5.InputLanguage.SMT_LIB_2_6, text, "q")
    sm = parser.getSymbolManager()
    out = "unknown"
    try:
        while True:
            cmd = parser.nextCommand()
            if cmd.isNull():
                break
            res = cmd.invoke(slv, sm)
            res = str(res).strip()
            if res in ("sat", "unsat", "unknown"):
                out = res
    except Exception as exc:  # parse error or unsupported: inconclusive
        return "error:%s" % str(exc)[:100]
    return out


class Engine:
    def __init__(
        self,
        timeout_ms=20000,
        inc_timeout_ms=2500,
        oneshot=False,
        max_paths=50000,
        crosscheck=False,
        seed=0,
    ):
        self.timeout_ms = timeout_ms
        self.inc_timeout_ms = inc_timeout_ms
        self.oneshot = oneshot
        self.max_paths = max_paths
        self.crosscheck = crosscheck
        self.seed = seed
        self.stats = Stats()
        self.active = False
        self.asserts = []
        self.inc = None
        self.decisions = []
        self.prefix = []
        self.worklist = []
        self.fresh = 0
        self.obligations = []
        self.last_unknown = ""
        self.cross_time = 0.0
        self.cross_undecided = 0

    # ---------------------------------------------------------------- solving
    def add(self, *terms):
        for t in terms:
            if isinstance(t, SymBool):
                t = t.t
            if isinstance(t, (bool, np.bool_)):
                t = z3.BoolVal(bool(t))
            self.asserts.append(t)
            if self.inc is not None:
                self.inc.add(t)

    def query(self, *extra, want_model=False):
        """Decide asserts /\\ extra. Returns (verdict, model) with verdict in
        'sat' / 'unsat' / 'unknown'."""
        st = self.stats
        st.queries += 1
        t0 = time.time()
        try:
            verdict, model, who = self._query(list(extra), want_model)
        finally:
            st.solver_time += time.time() - t0
        st.by_solver[who] += 1
        if verdict == "unknown":
            st.unknown += 1
        return verdict, model

    def _query(self, extra, want_model):
        if not self.oneshot:
            self.inc.push()
            try:
                for e in extra:
                    self.inc.add(e)
                r = _z3_check(self.inc, self.inc_timeout_ms)
                if r == z3.sat:
                    return "sat", (self.inc.model() if want_model else None), "z3-incremental"
                if r == z3.unsat:
                    self._cross(extra, "unsat")
                    return "unsat", None, "z3-incremental"
            finally:
                self.inc.pop()
        fs = self.asserts + extra
        fs2, cons = ackermannize(fs)
        # lazy Ackermann: functional-consistency constraints are added only when a model violates them
        # (unsat without them is unsat with them)
        if cons:
            active = []
            for _round in range(12):
                sl = z3.Solver()
                sl.add(fs2)
                sl.add(active)
                r = _z3_check(sl, min(self.timeout_ms, 5000))
                if r == z3.unsat:
                    self._cross(extra, "unsat")
                    return "unsat", None, "z3-oneshot-lazyack"
                if r != z3.sat:
                    break
                m = sl.model()
                bad = [c for c in cons if not z3.is_true(m.eval(c, model_completion=True))]
                if not bad:
                    return "sat", (m if want_model else None), "z3-oneshot-lazyack"
                active.extend(bad)
        # nlsat is sensitive to the order in which constants are declared: try the query as built under a
        # short cap, then re-parsed from its SMT-LIB text (another declaration order), then as built in full
        s = z3.Solver()
        s.add(fs2)
        s.add(cons)
        short = min(self.timeout_ms, 5000)
        r = _z3_check(s, short)
        if r == z3.sat:
            return "sat", (s.model() if want_model else None), "z3-oneshot"
        if r == z3.unsat:
            self._cross(extra, "unsat")
            return "unsat", None, "z3-oneshot"
        self.last_unknown = s.reason_unknown()
        try:
            s2 = z3.Solver()
            s2.add(z3.parse_smt2_string(s.to_smt2()))
            r = _z3_check(s2, self.timeout_ms)
        except z3.Z3Exception:
            r = z3.unknown
        if r == z3.sat:
            return "sat", (s2.model() if want_model else None), "z3-oneshot-reparsed"
        if r == z3.unsat:
            return "unsat", None, "z3-oneshot-reparsed"
        if self.timeout_ms > short:
            s3 = z3.Solver()
            s3.add(fs2)
            s3.add(cons)
            r = _z3_check(s3, self.timeout_ms)
            if r == z3.sat:
                return "sat", (s3.model() if want_model else None), "z3-oneshot"
            if r == z3.unsat:
                return "unsat", None, "z3-oneshot"
        # cvc5 on the exported script (no model: only unsat is used from it)
        try:
            res = cvc5_check(s.to_smt2(), self.timeout_ms)
        except Exception as exc:
            res = "error:%s" % exc
        if res == "unsat":
            return "unsat", None, "cvc5"
        if res == "sat" and not want_model:
            return "sat", None, "cvc5"
        return "unknown", None, "none"

    def _cross(self, extra, verdict):
        """thorough tier: replay decided-unsat queries through cvc5 (a budget of 90 s / 400 queries per
        job, 3 s each); a disagreement is fatal, an undecided replay is ignored"""
        if not self.crosscheck:
            return
        if self.cross_time > 90.0 or self.stats.crosschecked + self.cross_undecided >= 400:
            return
        s = z3.Solver()
        s.add(self.asserts + extra)
        t0 = time.time()
        res = cvc5_check(s.to_smt2(), 3000)
        self.cross_time += time.time() - t0
        if res not in ("sat", "unsat"):
            self.cross_undecided += 1
        if res in ("sat", "unsat"):
            self.stats.crosschecked += 1
            if res != verdict:
                self.stats.cross_disagree += 1
                raise HarnessError("z3 says %s, cvc5 says %s" % (verdict, res))

    # ------------------------------------------------------------- branching
    def assume(self, cond):
        cond = to_term(cond)
        cond = z3.simplify(cond)
        if z3.is_true(cond):
            return
        if z3.is_false(cond):
            raise PathAbort("assumption false")
        self.add(cond)
        r, _ = self.query()
        if r == "unknown":
            raise Inconclusive("solver unknown on assumption: %s" % self.last_unknown)
        if r != "sat":
            raise PathAbort("assumption infeasible")

    def branch(self, cond):
        "Decide a symbolic condition on this path, scheduling the alternative."
        cond = z3.simplify(cond)
        if z3.is_true(cond):
            return True
        if z3.is_false(cond):
            return False
        i = len(self.decisions)
        if i < len(self.prefix):
            d = self.prefix[i]
            self.decisions.append(d)
            self.add(cond if d else z3.Not(cond))
            return d
        rt, _ = self.query(cond)
        rf, _ = self.query(z3.Not(cond))
        if rt == "unknown" or rf == "unknown":
            raise Inconclusive(
                "solver unknown at branch %s (%s)" % (str(cond)[:200], self.last_unknown)
            )
        if rt == "sat" and rf == "sat":
            self.worklist.append(self.decisions + [False])
            d = True
        elif rt == "sat":
            d = True
        elif rf == "sat":
            d = False
        else:
            raise PathAbort("both sides infeasible")
        self.stats.branch_decisions += 1
        self.decisions.append(d)
        self.add(cond if d else z3.Not(cond))
        return d

    def concretize_int(self, term):
        "Fork over the feasible values of an Int term."
        term = z3.simplify(term)
        if z3.is_int_value(term):
            return term.as_long()
        n = 0
        while True:
            i = len(self.decisions)
            if i < len(self.prefix):
                # replaying: the value tried at this decision is recorded alongside
                v = self.prefix_values.get(i)
                if v is None:
                    raise HarnessError("replay prefix lost a concretisation value")
            else:
                r, m = self.query(want_model=True)
                if r == "unknown":
                    raise Inconclusive("solver unknown while concretising")
                if r != "sat":
                    raise PathAbort("no value")
                v = m.eval(term, model_completion=True).as_long()
                self.pending_values[i] = v
            if self.branch(term == v):
                return v
            n += 1
            if n > 64:
                raise Inconclusive("concretisation of %s exceeds 64 values" % term)

    def new(self, name, sort=None):
        self.fresh += 1
        return z3.Const("%s!%d" % (name, self.fresh), sort if sort is not None else R)

    # ----------------------------------------------------------- exploration
    def explore(self, fn, on_path=None):
        """Run fn() once per feasible path. fn returns a list of (label, claim).
        Returns list of dict(label, model, decisions) for claims that are not valid."""
        self.active = True
        self.worklist = [([], {})]
        results = []
        try:
            while self.worklist:
                item = self.worklist.pop()
                if isinstance(item, tuple):
                    self.prefix, self.prefix_values = item
                else:
                    self.prefix, self.prefix_values = item, {}
                self._run_path(fn, results, on_path)
        finally:
            self.active = False
        return results

    def _run_path(self, fn, results, on_path):
        st = self.stats
        self.decisions = []
        self.pending_values = dict(self.prefix_values)
        self.asserts = []
        self.inc = None if self.oneshot else z3.Solver()
        self.fresh = 0
        self.obligations = []
        # worklist entries pushed during this run must carry the values seen so far
        wl_before = len(self.worklist)
        st.paths += 1
        if st.paths > self.max_paths:
            raise Inconclusive("path budget (%d) exhausted" % self.max_paths)
        try:
            claims = fn()
        except PathAbort:
            st.aborted_paths += 1
            self._fix_worklist(wl_before)
            return
        self._fix_worklist(wl_before)
        st.path_steps += len(self.decisions) + 1
        claims = list(claims) + list(self.obligations)
        path_viol = []
        for label, claim in claims:
            claim = to_term(claim)
            st.claims += 1
            r, m = self.query(z3.Not(claim), want_model=True)
            if r == "unsat":
                st.claims_valid += 1
            elif r == "sat":
                path_viol.append({"label": label, "model": m, "claim": claim})
            else:
                raise Inconclusive(
                    "solver unknown on claim '%s' (%s)" % (label, self.last_unknown)
                )
        if on_path is not None:
            on_path(self, claims, path_viol)
        results.extend(path_viol)

    def _fix_worklist(self, start):
        for k in range(start, len(self.worklist)):
            item = self.worklist[k]
            if not isinstance(item, tuple):
                vals = {i: v for i, v in self.pending_values.items() if i < len(item)}
                self.worklist[k] = (item, vals)

    def witness(self):
        "a model of the current path condition"
        r, m = self.query(want_model=True)
        return m if r == "sat" else None


ENGINE = Engine()


def set_engine(e):
    global ENGINE
    ENGINE = e
    return e


# ----------------------------------------------------------------------------
# symbolic scalars
# ----------------------------------------------------------------------------
def realval(x):
    if isinstance(x, (bool, np.bool_)):
        x = int(x)
    if isinstance(x, (int, np.integer)):
        return z3.RealVal(int(x))
    if isinstance(x, (float, np.floating)):
        x = float(x)
        if math.isnan(x) or math.isinf(x):
            raise HarnessError("non-finite constant %r in Real semantics" % x)
        n, d = x.as_integer_ratio()
        return z3.RealVal(Fraction(n, d))
    if isinstance(x, Fraction):
        return z3.RealVal(x)
    raise TypeError(type(x))


def to_term(c):
    if isinstance(c, SymBool):
        return c.t
    if isinstance(c, (bool, np.bool_)):
        return z3.BoolVal(bool(c))
    if isinstance(c, CBool):
        return z3.BoolVal(c.v is not False)
    return c


class SymBool:
    __slots__ = ("t",)

    def __init__(self, t):
        self.t = t

    def __bool__(self):
        return ENGINE.branch(self.t)

    def __invert__(self):
        return SymBool(z3.Not(self.t))

    def __and__(self, o):
        return SymBool(z3.And(self.t, to_term(o)))

    __rand__ = __and__

    def __or__(self, o):
        return SymBool(z3.Or(self.t, to_term(o)))

    __ror__ = __or__

    def __xor__(self, o):
        return SymBool(z3.Xor(self.t, to_term(o)))

    __rxor__ = __xor__

    def __eq__(self, o):
        if isinstance(o, (SymBool, bool, np.bool_)):
            return SymBool(self.t == to_term(o))
        return NotImplemented

    def __ne__(self, o):
        if isinstance(o, (SymBool, bool, np.bool_)):
            return SymBool(self.t != to_term(o))
        return NotImplemented

    def __hash__(self):
        return id(self)

    def __repr__(self):
        return "SymBool(%s)" % self.t


def _arith(o):
    "z3 term (Real or Int) for operand o, or None"
    if isinstance(o, SymNum):
        return o.t
    if isinstance(o, (bool, np.bool_)):
        return z3.IntVal(int(o))
    if isinstance(o, (int, np.integer)):
        return z3.IntVal(int(o))
    if isinstance(o, (float, np.floating, Fraction)):
        return realval(o)
    if isinstance(o, SymBool):
        return z3.If(o.t, z3.IntVal(1), z3.IntVal(0))
    return None


def T(x):
    "Real-sorted z3 term of a scalar"
    t = _arith(x)
    if t is None:
        raise HarnessError("not a scalar: %r" % (x,))
    return z3.ToReal(t) if t.sort() == z3.IntSort() else t


def _wrap(t):
    t = z3.simplify(t)
    if t.sort() == z3.IntSort():
        return SymInt(t)
    return SymReal(t)


def _both_int(a, b):
    return a.sort() == z3.IntSort() and b.sort() == z3.IntSort()


def _r(a):
    return z3.ToReal(a) if a.sort() == z3.IntSort() else a


def zmul(a, b):
    """a*b on z3 terms with syntactic cancellation of (n/d) * (d*rest) -> n*rest. Sound because every
    symbolic division registers the obligation d != 0."""
    if a.sort() != b.sort():
        a, b = _r(a), _r(b)
    for x, y in ((a, b), (b, a)):
        if z3.is_app(x) and x.decl().kind() == z3.Z3_OP_DIV:
            num, den = x.children()
            if z3.is_rational_value(den) or z3.is_int_value(den):
                continue
            if y.eq(den):
                return num
            if z3.is_app(y) and y.decl().kind() == z3.Z3_OP_MUL:
                fs = y.children()
                for i, f in enumerate(fs):
                    if f.eq(den):
                        out = num
                        for r in fs[:i] + fs[i + 1 :]:
                            out = out * r
                        return out
    return a * b


class SymNum:
    __slots__ = ("t", "tag")

    def __init__(self, t, tag=None):
        self.t = t
        self.tag = tag

    def _bin(self, o, f, swap=False):
        b = _arith(o)
        if b is None:
            return NotImplemented
        a = self.t
        if swap:
            a, b = b, a
        return _wrap(f(a, b))

    def __add__(self, o):
        return self._bin(o, lambda a, b: a + b)

    def __radd__(self, o):
        return self._bin(o, lambda a, b: a + b, True)

    def __sub__(self, o):
        return self._bin(o, lambda a, b: a - b)

    def __rsub__(self, o):
        return self._bin(o, lambda a, b: a - b, True)

    def __mul__(self, o):
        return self._bin(o, zmul)

    def __rmul__(self, o):
        return self._bin(o, zmul, True)

    @staticmethod
    def _div(a, b):
        ENGINE.obligations.append(("definedness: division by zero", b != 0))
        # (x*b)/b -> x when b is syntactically a factor (b != 0 is an obligation anyway)
        if z3.is_app(a) and a.decl().kind() == z3.Z3_OP_MUL and not z3.is_rational_value(b) and not z3.is_int_value(b):
            fs = a.children()
            for i, f in enumerate(fs):
                if f.eq(b):
                    rest = fs[:i] + fs[i + 1 :]
                    if not rest:
                        return z3.RealVal(1)
                    out = rest[0]
                    for r in rest[1:]:
                        out = out * r
                    return _r(out)
        if getattr(ENGINE, "div_elim", False) and not z3.is_rational_value(b) and not z3.is_int_value(b):
            # division elimination: a/b becomes a fresh q with q*b == a (b != 0 is an obligation), which keeps
            # every later term polynomial
            q = ENGINE.new("quot")
            ENGINE.add(q * _r(b) == _r(a))
            return q
        return _r(a) / _r(b)

    def __truediv__(self, o):
        return self._bin(o, self._div)

    def __rtruediv__(self, o):
        return self._bin(o, self._div, True)

    @staticmethod
    def _floordiv(a, b):
        ENGINE.obligations.append(("definedness: division by zero", b != 0))
        if _both_int(a, b):
            # z3 int division rounds so that the remainder is non-negative;
            # Python floors. They agree for b > 0; for b < 0 adjust.
            q = a / b
            return z3.If(b > 0, q, z3.If(a % b != 0, q - 1, q))
        return z3.ToInt(_r(a) / _r(b))

    def __floordiv__(self, o):
        return self._bin(o, self._floordiv)

    def __rfloordiv__(self, o):
        return self._bin(o, self._floordiv, True)

    @staticmethod
    def _mod(a, b):
        ENGINE.obligations.append(("definedness: modulo by zero", b != 0))
        if _both_int(a, b):
            r = a % b  # z3: 0 <= r < |b|
            return z3.If(z3.And(b < 0, r != 0), r + b, r)
        q = z3.ToInt(_r(a) / _r(b))
        return _r(a) - _r(b) * z3.ToReal(q)

    def __mod__(self, o):
        return self._bin(o, self._mod)

    def __rmod__(self, o):
        return self._bin(o, self._mod, True)

    def __pow__(self, o):
        if isinstance(o, SymInt) and z3.is_int_value(o.t):
            o = o.t.as_long()
        if isinstance(o, (float, np.floating)) and float(o).is_integer():
            o = int(o)
        if isinstance(o, (int, np.integer)) and 0 <= int(o) <= 8:
            r = z3.RealVal(1) if self.t.sort() == R else z3.IntVal(1)
            for _ in range(int(o)):
                r = r * self.t
            return _wrap(r)
        b = _arith(o)
        if b is None:
            return NotImplemented
        return _wrap(POW(_r(self.t), _r(b)))

    def __rpow__(self, o):
        b = _arith(o)
        if b is None:
            return NotImplemented
        return _wrap(POW(_r(b), _r(self.t)))

    def __neg__(self):
        return _wrap(-self.t)

    def __pos__(self):
        return self

    def __abs__(self):
        return _wrap(z3.If(self.t >= 0, self.t, -self.t))

    def _cmp(self, o, f):
        if isinstance(o, (float, np.floating)) and math.isinf(o):
            # finite real against +-inf
            big = z3.RealVal(1) if o > 0 else z3.RealVal(-1)
            return SymBool(z3.simplify(f(z3.RealVal(0), big)))
        b = _arith(o)
        if b is None:
            return NotImplemented
        return SymBool(z3.simplify(f(self.t, b)))

    def __lt__(self, o):
        return self._cmp(o, lambda a, b: a < b)

    def __le__(self, o):
        return self._cmp(o, lambda a, b: a <= b)

    def __gt__(self, o):
        return self._cmp(o, lambda a, b: a > b)

    def __ge__(self, o):
        return self._cmp(o, lambda a, b: a >= b)

    def __eq__(self, o):
        return self._cmp(o, lambda a, b: a == b)

    def __ne__(self, o):
        return self._cmp(o, lambda a, b: a != b)

    def __hash__(self):
        return id(self)

    def __repr__(self):
        return "%s(%s)" % (type(self).__name__, self.t)

    def __format__(self, spec):
        return repr(self)

    # python numeric protocol
    def __round__(self, ndigits=None):
        if ndigits is not None:
            raise HarnessError("round(x, ndigits) on a symbolic value")
        if self.t.sort() == z3.IntSort():
            return self
        k = ENGINE.new("round", z3.IntSort())
        x = self.t
        kr = z3.ToReal(k)
        half = z3.RealVal("1/2")
        ENGINE.add(kr - x <= half, x - kr <= half)
        # ties to even
        ENGINE.add(z3.Implies(z3.Or(kr - x == half, x - kr == half), k % 2 == 0))
        return SymInt(k)

    def __floor__(self):
        return SymInt(z3.ToInt(self.t)) if self.t.sort() == R else self

    def __ceil__(self):
        if self.t.sort() != R:
            return self
        return SymInt(-z3.ToInt(-self.t))

    def __trunc__(self):
        return sym_int(self)

    def __index__(self):
        if self.t.sort() != z3.IntSort():
            raise TypeError("SymReal cannot be used as an index")
        return ENGINE.concretize_int(self.t)

    def __float__(self):
        t = z3.simplify(self.t)
        if z3.is_rational_value(t) or z3.is_int_value(t):
            return float(Fraction(t.numerator_as_long(), t.denominator_as_long())) if z3.is_rational_value(t) else float(t.as_long())
        raise HarnessError(
            "symbolic value forced to float (unmodelled C boundary): %s" % str(self.t)[:80]
        )

    # numpy object-loop method hooks
    def sqrt(self):
        x = _r(self.t)
        ENGINE.obligations.append(("definedness: sqrt of negative", x >= 0))
        if getattr(ENGINE, "keyed_sqrt", False):
            # sqrt(t) as a constant keyed by the normalised argument term: syntactic congruence only
            # (weaker than the uninterpreted function, hence sound for 'valid' verdicts; keeps queries out of nlsat's worst cases)
            xs = z3.simplify(x, som=True)
            r = z3.Real("sqrt!%s" % hashlib.sha1(xs.sexpr().encode()).hexdigest()[:12])
            ENGINE.add(r >= 0)
            if getattr(ENGINE, "sqrt_pos_axiom", False):
                ENGINE.add(z3.Implies(x > 0, r > 0))
            if getattr(ENGINE, "sqrt_axiom", False):
                ENGINE.add(r * r == x)
            return SymReal(r)
        r = SQRT(x)
        ENGINE.add(r >= 0)
        if getattr(ENGINE, "sqrt_pos_axiom", False):
            ENGINE.add(z3.Implies(x > 0, r > 0))
        if getattr(ENGINE, "sqrt_axiom", False):
            ENGINE.add(r * r == x)
        return SymReal(r)

    def log(self):
        x = _r(self.t)
        ENGINE.obligations.append(("definedness: log of non-positive", x > 0))
        ENGINE.add(LOG(z3.RealVal(1)) == 0)
        if z3.is_app(x) and x.decl().name() == "pow" and x.num_args() == 2:
            b, e = x.arg(0), x.arg(1)
            # ground axioms: log(b**e) = e*log(b) for b > 0; 0**0 = 1; b > 0 => b**e > 0
            ENGINE.add(z3.Implies(b > 0, LOG(x) == e * LOG(b)))
            ENGINE.add(z3.Implies(z3.And(b == 0, e == 0), x == 1))
            ENGINE.add(z3.Implies(b > 0, x > 0))
        return SymReal(LOG(x))

    def sin(self):
        return SymReal(SIN(_r(self.t)))

    def cos(self):
        return SymReal(COS(_r(self.t)))

    def conjugate(self):
        return self

    @property
    def real(self):
        return self

    @property
    def imag(self):
        return 0


class SymReal(SymNum):
    __slots__ = ()


class SymInt(SymNum):
    __slots__ = ()

    def __int__(self):
        return ENGINE.concretize_int(self.t)


def sym_int(x, *args):
    "replacement for builtin int in verde module globals (truncation toward zero)"
    if hasattr(x, "symval"):
        x = x.symval  # a text token denoting a symbolic number (fake file)
        if not isinstance(x, (SymNum, int)):
            raise ValueError("invalid literal for int() with base 10")
    if isinstance(x, SymInt):
        return x
    if isinstance(x, SymReal):
        t = x.t
        return SymInt(z3.simplify(z3.If(t >= 0, z3.ToInt(t), -z3.ToInt(-t))))
    return int(x, *args)


def sym_float(x):
    "replacement for builtin float in module globals"
    if hasattr(x, "symval"):
        x = x.symval
    if isinstance(x, SymNum):
        return SymReal(_r(x.t))
    return float(x)


def sym_min(*args, **kw):
    "builtin min with merged If terms"
    if len(args) == 1:
        if isinstance(args[0], (SymNum, int, float)):
            return args[0]
        args = tuple(args[0])
    if kw or not any(isinstance(a, SymNum) for a in args):
        return min(*args, **kw)
    r = T(args[0])
    for v in args[1:]:
        v = T(v)
        r = z3.If(v < r, v, r)
    return SymReal(z3.simplify(r))


def sym_max(*args, **kw):
    if len(args) == 1:
        if isinstance(args[0], (SymNum, int, float)):
            return args[0]
        args = tuple(args[0])
    if kw or not any(isinstance(a, SymNum) for a in args):
        return max(*args, **kw)
    r = T(args[0])
    for v in args[1:]:
        v = T(v)
        r = z3.If(v > r, v, r)
    return SymReal(z3.simplify(r))


# ----------------------------------------------------------------------------
# concrete three-valued booleans for replaying harness claims on real code
# ----------------------------------------------------------------------------
TOL = 1e-9


class CBool:
    "Kleene boolean: True / False / None (within round-off tolerance of the boundary)"
    __slots__ = ("v",)

    def __init__(self, v):
        self.v = None if v is None else bool(v)  # numpy booleans are normalised (identity tests below)

    def __bool__(self):
        return self.v is not False

    def __repr__(self):
        return "CBool(%s)" % {True: "T", False: "F", None: "U"}[self.v]


def _cb(x):
    if isinstance(x, CBool):
        return x.v
    if isinstance(x, (bool, np.bool_)):
        return bool(x)
    raise HarnessError("not a boolean: %r" % (x,))


def is_sym(x):
    return isinstance(x, (SymNum, SymBool))


def _anysym(*xs):
    return any(isinstance(x, (SymNum, SymBool)) or z3.is_expr(x) for x in xs)


def _near(a, b):
    a = float(a)
    b = float(b)
    if math.isnan(a) or math.isnan(b) or math.isinf(a) or math.isinf(b):
        return False
    return abs(a - b) <= TOL * max(1.0, abs(a), abs(b))


def _exact_num(x):
    return isinstance(x, (int, np.integer, bool, np.bool_, Fraction))


def _cmp2(a, b, symf, concf):
    if _anysym(a, b):
        ta, tb = _arith(a), _arith(b)
        if ta is None or tb is None:
            raise HarnessError("cannot compare %r and %r" % (a, b))
        return SymBool(z3.simplify(symf(ta, tb)))
    if _exact_num(a) and _exact_num(b):
        return CBool(bool(concf(a, b)))
    fa, fb = float(a), float(b)
    if math.isnan(fa) or math.isnan(fb):
        return CBool(False)
    if fa != fb and _near(fa, fb):
        return CBool(None)
    return CBool(bool(concf(fa, fb)))


def eq(a, b):
    if isinstance(a, (SymBool, CBool, bool, np.bool_)) and isinstance(
        b, (SymBool, CBool, bool, np.bool_)
    ):
        return iff(a, b)
    return _cmp2(a, b, lambda x, y: x == y, lambda x, y: x == y)


def ne(a, b):
    return Not(eq(a, b))


def le(a, b):
    return _cmp2(a, b, lambda x, y: x <= y, lambda x, y: x <= y)


def lt(a, b):
    return _cmp2(a, b, lambda x, y: x < y, lambda x, y: x < y)


def ge(a, b):
    return le(b, a)


def gt(a, b):
    return lt(b, a)


def _flat(cs):
    out = []
    for c in cs:
        if isinstance(c, (list, tuple)):
            out.extend(_flat(c))
        elif isinstance(c, np.ndarray):
            out.extend(_flat(list(c.ravel())))
        else:
            out.append(c)
    return out


def And(*cs):
    cs = _flat(cs)
    if _anysym(*cs):
        ts = [to_term(c.v if isinstance(c, CBool) else c) for c in cs]
        return SymBool(z3.And(*ts)) if ts else SymBool(z3.BoolVal(True))
    vs = [_cb(c) for c in cs]
    if any(v is False for v in vs):
        return CBool(False)
    if any(v is None for v in vs):
        return CBool(None)
    return CBool(True)


def Or(*cs):
    cs = _flat(cs)
    if _anysym(*cs):
        ts = [to_term(c.v if isinstance(c, CBool) else c) for c in cs]
        return SymBool(z3.Or(*ts)) if ts else SymBool(z3.BoolVal(False))
    vs = [_cb(c) for c in cs]
    if any(v is True for v in vs):
        return CBool(True)
    if any(v is None for v in vs):
        return CBool(None)
    return CBool(False)


def Not(c):
    if _anysym(c):
        return SymBool(z3.Not(to_term(c)))
    v = _cb(c)
    return CBool(None if v is None else (not v))


def Implies(a, b):
    return Or(Not(a), b)


def iff(a, b):
    if _anysym(a, b):
        return SymBool(to_term(a) == to_term(b))
    va, vb = _cb(a), _cb(b)
    if va is None or vb is None:
        return CBool(None)
    return CBool(va == vb)


def ite(c, a, b):
    "value-level if-then-else"
    if _anysym(c):
        ta, tb = _arith(a), _arith(b)
        if ta.sort() != tb.sort():
            ta, tb = _r(ta), _r(tb)
        return _wrap(z3.If(to_term(c), ta, tb))
    return a if _cb(c) is not False else b


def arr_eq(a, b):
    "element-wise equality of two arrays incl. shape"
    a = np.asarray(a)
    b = np.asarray(b)
    if a.shape != b.shape:
        return CBool(False) if not _anysym(*_flat([a, b])) else SymBool(z3.BoolVal(False))
    return And([eq(x, y) for x, y in zip(a.ravel(), b.ravel())] or [CBool(True)])


def smin(*xs):
    xs = _flat(xs)
    if _anysym(*xs):
        return sym_min(*xs)
    return min(xs)


def smax(*xs):
    xs = _flat(xs)
    if _anysym(*xs):
        return sym_max(*xs)
    return max(xs)


def sabs(x):
    return abs(x)


def is_int_value(x):
    "claim helper: x is an integer (Real term or float)"
    if _anysym(x):
        return SymBool(z3.IsInt(T(x)))
    fx = float(x)
    k = round(fx)
    if fx == k:
        return CBool(True)
    return CBool(None if _near(fx, k) else False)


# ----------------------------------------------------------------------------
# term evaluation / model extraction
# ----------------------------------------------------------------------------
def model_value(m, const):
    "python value (int / Fraction / float / bool) of a declared input constant under model m"
    v = m.eval(const, model_completion=True)
    if z3.is_int_value(v):
        return v.as_long()
    if z3.is_rational_value(v):
        return Fraction(v.numerator_as_long(), v.denominator_as_long())
    if z3.is_algebraic_value(v):
        a = v.approx(20)
        return Fraction(a.numerator_as_long(), a.denominator_as_long())
    if z3.is_true(v):
        return True
    if z3.is_false(v):
        return False
    if z3.is_fp(v):
        return fp_value(v)
    raise HarnessError("cannot read model value %s" % v)


def fp_value(v):
    v = z3.simplify(v)
    if z3.is_fprm(v):
        raise HarnessError("rounding mode")
    if v.isNaN():
        return float("nan")
    if v.isInf():
        return float("-inf") if v.isNegative() else float("inf")
    if v.isZero():
        return -0.0 if v.isNegative() else 0.0
    import struct

    bv = z3.simplify(z3.fpToIEEEBV(v))
    return struct.unpack("<d", struct.pack("<Q", bv.as_long()))[0]


# ----------------------------------------------------------------------------
# dual-mode transcendental helpers for claims (uninterpreted in sym, math.* in replay)
# ----------------------------------------------------------------------------
def _u1(uf, mf, x):
    if _anysym(x):
        return SymReal(uf(T(x)))
    return mf(float(x))


def ulog(x):
    return _u1(LOG, math.log, x)


def usin(x):
    return _u1(SIN, math.sin, x)


def ucos(x):
    return _u1(COS, math.cos, x)


def usqrt(x):
    if _anysym(x):
        return SymReal(T(x)).sqrt()
    return math.sqrt(float(x))
