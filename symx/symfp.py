"""Bit-precise IEEE-754 binary64 scalars (z3 FPSort(11, 53), round-nearest-even).
Used only for comparison-only kernels and kernels with a single multiply/divide."""
import math

import numpy as np
import z3

from . import engine as E
from .engine import SymBool

F = z3.Float64()
RM = z3.RNE()
DBL_MAX = 1.7976931348623157e308


def fpterm(o):
    if isinstance(o, SymFP):
        return o.t
    if isinstance(o, (int, float, np.integer, np.floating, bool)):
        return z3.FPVal(float(o), F)
    return None


class SymFP:
    __slots__ = ("t",)

    def __init__(self, t):
        self.t = t

    def _bin(self, o, f, swap=False):
        b = fpterm(o)
        if b is None:
            return NotImplemented
        a = self.t
        if swap:
            a, b = b, a
        return SymFP(f(a, b))

    def __add__(self, o):
        return self._bin(o, lambda a, b: z3.fpAdd(RM, a, b))

    def __radd__(self, o):
        return self._bin(o, lambda a, b: z3.fpAdd(RM, a, b), True)

    def __sub__(self, o):
        return self._bin(o, lambda a, b: z3.fpSub(RM, a, b))

    def __rsub__(self, o):
        return self._bin(o, lambda a, b: z3.fpSub(RM, a, b), True)

    def __mul__(self, o):
        return self._bin(o, lambda a, b: z3.fpMul(RM, a, b))

    def __rmul__(self, o):
        return self._bin(o, lambda a, b: z3.fpMul(RM, a, b), True)

    def __truediv__(self, o):
        return self._bin(o, lambda a, b: z3.fpDiv(RM, a, b))

    def __rtruediv__(self, o):
        return self._bin(o, lambda a, b: z3.fpDiv(RM, a, b), True)

    def __neg__(self):
        return SymFP(z3.fpNeg(self.t))

    def __abs__(self):
        return SymFP(z3.fpAbs(self.t))

    def _cmp(self, o, f):
        b = fpterm(o)
        if b is None:
            return NotImplemented
        return SymBool(f(self.t, b))

    def __lt__(self, o):
        return self._cmp(o, z3.fpLT)

    def __le__(self, o):
        return self._cmp(o, z3.fpLEQ)

    def __gt__(self, o):
        return self._cmp(o, z3.fpGT)

    def __ge__(self, o):
        return self._cmp(o, z3.fpGEQ)

    def __eq__(self, o):
        return self._cmp(o, z3.fpEQ)

    def __ne__(self, o):
        return self._cmp(o, lambda a, b: z3.Not(z3.fpEQ(a, b)))

    def __hash__(self):
        return id(self)

    def __float__(self):
        raise E.HarnessError("symbolic fp value forced to float (unmodelled C boundary)")

    def __repr__(self):
        return "SymFP(%s)" % self.t


def fp(name):
    return SymFP(z3.FP(name, F))


def same_bits(a, b):
    "bit-identical doubles (all NaNs identified)"
    return z3.Or(
        z3.And(z3.fpIsNaN(a), z3.fpIsNaN(b)),
        z3.And(
            z3.Not(z3.fpIsNaN(a)),
            z3.Not(z3.fpIsNaN(b)),
            z3.fpToIEEEBV(a) == z3.fpToIEEEBV(b),
        ),
    )


def nan_to_num_scalar(v):
    t = v.t
    big = z3.FPVal(DBL_MAX, F)
    return SymFP(
        z3.If(
            z3.fpIsNaN(t),
            z3.FPVal(0.0, F),
            z3.If(z3.fpIsInf(t), z3.If(z3.fpIsNegative(t), z3.fpNeg(big), big), t),
        )
    )


def fmin(vals):
    "numpy ndarray.min() on doubles without NaN (comparison chain)"
    r = vals[0].t
    for v in vals[1:]:
        r = z3.If(z3.fpLT(v.t, r), v.t, r)
    return SymFP(r)


# ---- dual-mode claim helpers (SymFP terms or plain Python floats, always exact)
def _c(v):
    from .engine import CBool

    return CBool(bool(v))


def _is(x, y=None):
    return isinstance(x, SymFP) or isinstance(y, SymFP)


def f_same(a, b):
    "bit-identical (NaNs identified)"
    if _is(a, b):
        return SymBool(same_bits(fpterm(a), fpterm(b)))
    a, b = float(a), float(b)
    if math.isnan(a) or math.isnan(b):
        return _c(math.isnan(a) and math.isnan(b))
    return _c(a == b and math.copysign(1, a) == math.copysign(1, b))


def f_isnan(x):
    if _is(x):
        return SymBool(z3.fpIsNaN(x.t))
    return _c(math.isnan(float(x)))


def f_le(a, b):
    return (a <= b) if _is(a, b) else _c(float(a) <= float(b))


def f_lt(a, b):
    return (a < b) if _is(a, b) else _c(float(a) < float(b))


def f_gt(a, b):
    return (a > b) if _is(a, b) else _c(float(a) > float(b))


def f_eq(a, b):
    return (a == b) if _is(a, b) else _c(float(a) == float(b))
