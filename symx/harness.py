"""
Harness plumbing: dual-mode context (symbolic / concrete), job execution
(exploration, claim discharge, counterexample replay on the unstubbed code,
witness validation), known-findings handling and result records.

A harness body is written once and runs in two modes:

* ``sym``  - inputs are symbolic scalars, verde's module globals are rebound to
  the numpy proxy and the contract stubs, claims are z3 terms discharged by the
  solver portfolio on every feasible path;
* ``conc`` - inputs are plain floats/ints taken from a solver model, *nothing* is
  rebound (real numpy, real scipy/sklearn/pandas), claims are three-valued
  booleans with a round-off margin. This is the replay that must fail before a
  VIOLATION is printed, and the witness validation of explored paths.
"""
import hashlib
import inspect
import json
import os
import sys
import time
import traceback
import warnings
from collections import OrderedDict
from fractions import Fraction

import numpy as np
import z3

from . import engine as E
from . import npx
from .engine import SymReal, SymInt, SymBool, CBool

VERIF = os.path.dirname(os.path.dirname(os.path.abspath(__file__)))
KNOWN_FILE = os.path.join(VERIF, "known_findings.json")


class PreconditionFailed(BaseException):
    pass


def load_known():
    with open(KNOWN_FILE) as f:
        return json.load(f)["findings"]


def open_known(prop, harness):
    return [
        k
        for k in load_known()
        if k["property"] == prop and k["harness"] == harness and k["status"] == "open"
    ]


class Ctx:
    def __init__(self, mode, cfg=None, values=None, known_pass=None, open_ids=(), seed=0):
        self.sym = mode == "sym"
        self.cfg = cfg or {}
        self.values = values
        self.inputs = OrderedDict()
        self.claims = []
        self.outputs = OrderedDict()
        self.known_pass = known_pass  # None: outside every open class; else the id explored
        self.open_ids = set(open_ids)
        self.seen_classes = []
        self.seed = seed
        self.extra_stubs = set()

    # ---- inputs
    def _decl(self, name, const):
        if name in self.inputs:
            raise E.HarnessError("input %s declared twice" % name)
        self.inputs[name] = const
        return const

    def _val(self, name):
        if name not in self.values:
            raise E.HarnessError("replay lacks a value for input %s" % name)
        self.inputs[name] = None
        return self.values[name]

    def real(self, name, lo=None, hi=None):
        if self.sym:
            x = SymReal(self._decl(name, z3.Real(name)))
        else:
            x = float(self._val(name))
        if lo is not None:
            self.assume(x >= lo)
        if hi is not None:
            self.assume(x <= hi)
        return x

    def integer(self, name, lo=None, hi=None):
        if self.sym:
            x = SymInt(self._decl(name, z3.Int(name)))
        else:
            x = int(self._val(name))
        if lo is not None:
            self.assume(x >= lo)
        if hi is not None:
            self.assume(x <= hi)
        return x

    def fp(self, name):
        from . import symfp

        if self.sym:
            return symfp.SymFP(self._decl(name, z3.FP(name, symfp.F)))
        return float(self._val(name))

    def boolean(self, name):
        if self.sym:
            return SymBool(self._decl(name, z3.Bool(name)))
        return bool(self._val(name))

    def reals(self, name, shape, lo=None, hi=None):
        if isinstance(shape, int):
            shape = (shape,)
        a = np.empty(shape, dtype=object if self.sym else float)
        for idx in np.ndindex(*shape):
            a[idx] = self.real(name + "_" + "_".join(map(str, idx)), lo, hi)
        return a

    def ints(self, name, shape, lo=None, hi=None):
        if isinstance(shape, int):
            shape = (shape,)
        a = np.empty(shape, dtype=object if self.sym else np.int64)
        for idx in np.ndindex(*shape):
            a[idx] = self.integer(name + "_" + "_".join(map(str, idx)), lo, hi)
        return a

    def fps(self, name, shape):
        if isinstance(shape, int):
            shape = (shape,)
        a = np.empty(shape, dtype=object if self.sym else float)
        for idx in np.ndindex(*shape):
            a[idx] = self.fp(name + "_" + "_".join(map(str, idx)))
        return a

    # ---- assumptions / claims
    def assume(self, cond):
        if self.sym:
            if isinstance(cond, (bool, np.bool_)):
                if not cond:
                    raise E.PathAbort("assumption false")
                return
            E.ENGINE.assume(cond)
        else:
            v = cond.v if isinstance(cond, CBool) else bool(cond)
            if v is False:
                raise PreconditionFailed()

    def claim(self, label, cond, conc=True):
        if not self.sym and not conc:
            return
        self.claims.append((label, cond))

    def lemma(self, label, cond):
        """prove `cond` on the current path (it is recorded as a claim like any other) and, if it is valid,
        make it available to the solver for the claims that follow. Replay: an ordinary claim."""
        self.claims.append((label, cond))
        if self.sym:
            r, _ = E.ENGINE.query(z3.Not(E.to_term(cond)))
            if r == "unsat":
                E.ENGINE.add(E.to_term(cond))
                return True
            return False
        return True

    def claim_all(self, label, conds):
        for i, c in enumerate(conds):
            self.claim("%s [%d]" % (label, i), c)

    def known_class(self, fid, cond):
        """Declare the input class of a (possibly) known finding. While the finding is
        listed as open, the main pass assumes the input lies outside the class and a
        separate pass explores the class; otherwise this is a no-op."""
        self.seen_classes.append(fid)
        if fid not in self.open_ids:
            return
        if self.known_pass == fid:
            self.assume(cond)
        else:
            self.assume(E.Not(cond))

    def output(self, name, val):
        self.outputs[name] = val

    def fresh_real(self, name):
        "an unconstrained value that is not an input (sym only)"
        return SymReal(E.ENGINE.new(name))

    def expect_raises(self, exc_types, fn, *a, **kw):
        "returns (raised: bool, result)"
        try:
            return False, fn(*a, **kw)
        except exc_types:
            return True, None


class Harness:
    def __init__(
        self,
        name,
        fn,
        configs,
        bounds,
        engine=None,
        extra_globals=None,
        stubs=(),
        outside="",
        validate=True,
        group=1,
        timeout_s=600,
        fp_probe=True,
    ):
        self.name = name
        self.fn = fn
        self._configs = configs
        self.bounds = bounds
        self.engine_opts = engine or {}
        self.extra_globals = extra_globals  # callable(ctx) -> {(module, name): obj}
        self.stubs = list(stubs)
        self.outside = outside
        self.validate = validate
        self.group = group
        self.timeout_s = timeout_s
        self.fp_probe = fp_probe

    def configs(self, tier, seed):
        c = self._configs
        if callable(c):
            return list(c(tier, seed))
        return list(c.get(tier, c.get("quick")))


def _pyval(v):
    if isinstance(v, Fraction):
        f = float(v)
        return f
    if isinstance(v, (np.floating,)):
        return float(v)
    if isinstance(v, (np.integer,)):
        return int(v)
    return v


def model_inputs(ctx, model):
    out = OrderedDict()
    for name, const in ctx.inputs.items():
        out[name] = _pyval(E.model_value(model, const))
    return out


def _from_verde(exc):
    "does the traceback pass through verde's own source?"
    for fr in traceback.extract_tb(exc.__traceback__):
        if "/verde/" in fr.filename and "/tests/" not in fr.filename:
            return True
    return False


def run_concrete(prop_mod, harness, cfg, values, seed=0):
    """Run the harness body on the real, unstubbed code with concrete inputs.
    Returns dict(status = 'ok' | 'fail' | 'precondition', failed=[labels], detail)"""
    ctx = Ctx("conc", cfg=cfg, values=values, seed=seed)
    old = E.ENGINE.active
    E.ENGINE.active = False
    try:
        with warnings.catch_warnings():
            warnings.simplefilter("ignore")
            with np.errstate(all="ignore"), npx.suspended():
                harness.fn(ctx)
    except PreconditionFailed:
        return {"status": "precondition", "failed": [], "uncertain": 0}
    except (E.HarnessError, E.Inconclusive, E.PathAbort):
        raise
    except Exception as exc:  # noqa: BLE001 - an exception the harness did not expect is a failed claim
        if not _from_verde(exc):
            raise E.HarnessError("exception raised outside verde's code (harness bug?): %s: %s\n%s" % (type(exc).__name__, exc, traceback.format_exc(limit=4)))
        tb = traceback.format_exc(limit=6)
        return {
            "status": "fail",
            "failed": ["unexpected exception: %s: %s" % (type(exc).__name__, str(exc)[:200])],
            "detail": tb,
            "uncertain": 0,
        }
    finally:
        E.ENGINE.active = old
    failed = []
    unc = 0
    for label, c in ctx.claims:
        v = c.v if isinstance(c, CBool) else (bool(c) if isinstance(c, (bool, np.bool_)) else None)
        if isinstance(c, SymBool):
            raise E.HarnessError("symbolic claim in concrete mode: %s" % label)
        if v is False:
            failed.append(label)
        elif v is None:
            unc += 1
    return {
        "status": "fail" if failed else "ok",
        "failed": failed,
        "uncertain": unc,
        "nclaims": len(ctx.claims),
    }


def write_replay(prop, harness, cfg, values, failed, how):
    payload = {
        "property": prop,
        "harness": harness.name,
        "cfg": cfg,
        "inputs": values,
        "failed_claims": failed,
        "found_by": how,
    }
    blob = json.dumps(payload, sort_keys=True, default=str)
    h = hashlib.sha1(blob.encode()).hexdigest()[:10]
    path = os.path.join(VERIF, "replays", "%s-%s-%s.py" % (prop, harness.name, h))
    os.makedirs(os.path.dirname(path), exist_ok=True)
    with open(path, "w") as f:
        f.write(
            "#!/verif/.venv/bin/python\n"
            '"""Replay of a counterexample on the real, unstubbed verde code (plain numpy inputs).\n'
            "Run: /verif/check replay %s\n"
            'Exit status 1 and a list of failed claims if the violation reproduces."""\n'
            "import json, sys\n"
            "sys.path.insert(0, %r)\n"
            "PAYLOAD = json.loads(%r)\n"
            "if __name__ == '__main__':\n"
            "    from symx.harness import replay_payload\n"
            "    sys.exit(replay_payload(PAYLOAD))\n" % (path, VERIF, json.dumps(payload, default=str))
        )
    return path


def relayout(arr, mode):
    """the same logical array in another memory layout: 'C' (as is), 'F' (column-major copy), 'T' (transposed
    view of a transposed copy)"""
    arr = np.asarray(arr)
    if mode == "F" and arr.ndim >= 2:
        return np.asfortranarray(arr)
    if mode == "T" and arr.ndim >= 2:
        return np.ascontiguousarray(arr.T).T
    return arr


def replay_payload(payload):
    import importlib

    mod = importlib.import_module("props.%s" % payload["property"].lower())
    h = {x.name: x for x in mod.HARNESSES}[payload["harness"]]
    res = run_concrete(mod, h, payload["cfg"], payload["inputs"])
    print("replay %s/%s inputs=%s" % (payload["property"], payload["harness"], payload["inputs"]))
    if res["status"] == "fail":
        for l in res["failed"]:
            print("  FAILED claim:", l)
        if res.get("detail"):
            print(res["detail"])
        return 1
    print("  status:", res["status"], "(violation does not reproduce)")
    return 0


class _Tracer:
    "collect the verde functions actually executed (first paths of a job)"

    def __init__(self):
        self.codes = {}

    def __call__(self, frame, event, arg):
        if event == "call":
            co = frame.f_code
            fn = co.co_filename
            if "/verde/" in fn and "/tests/" not in fn and co not in self.codes:
                self.codes[co] = (fn, co.co_qualname, co.co_firstlineno)

    def summary(self):
        out = {}
        cache = {}
        for co, (fn, qn, line) in self.codes.items():
            if qn.startswith("<"):
                continue
            try:
                if fn not in cache:
                    with open(fn) as f:
                        cache[fn] = f.read().splitlines()
                lines = cache[fn]
                block = inspect.getblock(lines[line - 1 :])
                sha = hashlib.sha1("\n".join(block).encode()).hexdigest()[:12]
            except Exception:  # noqa: BLE001
                sha = "?"
            mod = fn.split("/verde/", 1)[1][:-3].replace("/", ".")
            out["verde.%s.%s" % (mod, qn)] = sha
        return out


def dyadic_refine(eng, ctx, extra, odd=False, quick=False):
    """re-solve the violating query with every real input restricted to small dyadic rationals
    (odd=True: odd multiples of 1/8 or 1/64, which avoids the integer coincidences of periodic functions)"""
    reals = [c for c in ctx.inputs.values() if c is not None and c.sort() == z3.RealSort()]
    if not reals:
        return None
    levels = ((None, 50), ("nodistinct", 50)) if odd else ((0, 1000), (1, 1000), (3, 10000), (6, 100000))
    if quick and not odd:
        levels = ((0, 1000), (3, 10000))
    for m, bound in levels:
        cons = []
        ks = []
        for i, c in enumerate(reals):
            k = z3.Int("dy!%d" % i)
            ks.append(k)
            den = 97 if odd else 2**m
            cons.append(c * den == z3.ToReal(k))
            cons.append(k <= bound * den)
            cons.append(k >= -bound * den)
            if odd:
                # generic values: multiples of 1/97 that are no integers, pairwise distinct
                cons.append(k % 97 != 0)
        if odd and len(ks) > 1 and m != "nodistinct":
            # pairwise distinct when possible (second attempt without: some paths force equal inputs,
            # e.g. a header range that must equal the data's minimum)
            cons.append(z3.Distinct(*ks))
        save = (eng.timeout_ms, eng.inc_timeout_ms)
        eng.timeout_ms, eng.inc_timeout_ms = (1500, 1000) if quick else (4000, 2000)
        try:
            r, mdl = eng.query(*(list(extra) + cons), want_model=True)
        finally:
            eng.timeout_ms, eng.inc_timeout_ms = save
        if r == "sat" and mdl is not None:
            return mdl
    return None


def run_job(prop, prop_mod, harness, cfg, tier, seed, known_pass=None):
    """Explore one (harness, cfg): returns a JSON-serialisable record."""
    t0 = time.time()
    opts = dict(harness.engine_opts)
    if tier == "thorough":
        opts.setdefault("timeout_ms", 60000)
        if os.environ.get("VERIF_CROSSCHECK", "1") != "0" and not opts.get("no_crosscheck"):
            opts["crosscheck"] = True
    opts.pop("no_crosscheck", None)
    sqrt_axiom = opts.pop("sqrt_axiom", False)
    sqrt_pos = opts.pop("sqrt_pos_axiom", False)
    keyed = opts.pop("keyed_sqrt", False)
    div_elim = opts.pop("div_elim", False)
    eng = E.set_engine(E.Engine(seed=seed, **opts))
    eng.sqrt_axiom = sqrt_axiom
    eng.sqrt_pos_axiom = sqrt_pos
    eng.keyed_sqrt = keyed
    eng.div_elim = div_elim
    open_ids = [k["id"] for k in open_known(prop, harness.name)]
    rec = {
        "property": prop,
        "harness": harness.name,
        "cfg": cfg,
        "known_pass": known_pass,
        "status": "ok",
        "violations": [],
        "unreproduced": [],
        "witness_validated": 0,
        "fp_probes": 0,
        "witness_uncertain_claims": 0,
        "samples": [],
        "messages": [],
    }
    max_validate = 1000000 if tier == "thorough" else 12
    fp_probe = harness.fp_probe
    max_probe = 1000 if tier == "thorough" else 12
    max_viol = 3
    tracer = _Tracer()
    state = {"ctx": None, "npaths": 0}
    labels_seen = set()

    def body():
        ctx = Ctx("sym", cfg=cfg, known_pass=known_pass, open_ids=open_ids, seed=seed)
        state["ctx"] = ctx
        state["npaths"] += 1
        trace = state["npaths"] <= 3
        if trace:
            sys.setprofile(tracer)
        try:
            with warnings.catch_warnings():
                warnings.simplefilter("ignore")
                try:
                    harness.fn(ctx)
                except Exception as exc:  # noqa: BLE001 - unexpected exception on a feasible path
                    if not _from_verde(exc):
                        raise E.HarnessError("exception raised outside verde's code (harness bug?): %s: %s\n%s" % (type(exc).__name__, exc, traceback.format_exc(limit=4)))
                    tb = traceback.extract_tb(exc.__traceback__)
                    where = ""
                    for fr in tb:
                        if "/verde/" in fr.filename:
                            where = " at %s:%d" % (fr.filename.split("/verde/")[-1], fr.lineno)
                    ctx.claims.append(
                        (
                            "no unexpected exception (%s: %s%s)"
                            % (type(exc).__name__, str(exc)[:120], where),
                            z3.BoolVal(False),
                        )
                    )
        finally:
            if trace:
                sys.setprofile(None)
        return ctx.claims

    def on_path(eng, claims, path_viol):
        ctx = state["ctx"]
        for l, _ in claims:
            labels_seen.add(l.split(" [")[0])
        if path_viol:
            if len(rec["violations"]) >= max_viol:
                return
            seen_labels = set()
            for v in path_viol:
                if v["label"] in seen_labels:
                    continue
                seen_labels.add(v["label"])
                tried = []
                models = []
                neg = z3.Not(v["claim"])
                md = dyadic_refine(eng, ctx, [neg])
                if md is not None:
                    models.append(("dyadic", md))
                models.append(("raw", v["model"]))
                models.append(("generic", None))
                reproduced = False
                for how, mdl in models:
                    if mdl is None:
                        mdl = dyadic_refine(eng, ctx, [neg], odd=True)
                        if mdl is None:
                            continue
                    vals = model_inputs(ctx, mdl)
                    res = run_concrete(prop_mod, harness, cfg, vals, seed)
                    tried.append((how, vals, res["status"]))
                    if res["status"] == "fail":
                        path = write_replay(prop, harness, cfg, vals, res["failed"], "solver model (%s) for claim '%s'" % (how, v["label"]))
                        rec["violations"].append(
                            {
                                "label": v["label"],
                                "inputs": vals,
                                "failed_concrete": res["failed"],
                                "replay": path,
                            }
                        )
                        reproduced = True
                        break
                if not reproduced and tried:
                    # UF models can be spurious for the real functions (e.g. sin at multiples of the period):
                    # look for a concrete reproducer near the solver's model. Any input that fails the
                    # replay on the real code is a genuine counterexample, however it was found.
                    import random

                    rng = random.Random(1000 + seed)
                    base = tried[-1][1] if tried[-1][1] else tried[0][1]
                    for attempt in range(40):
                        sigma = (1e-3, 0.05, 0.5, 3.0)[attempt % 4]
                        vals = OrderedDict()
                        for kname, x in base.items():
                            if isinstance(x, float):
                                vals[kname] = x + sigma * (1 + abs(x)) * rng.uniform(-1, 1)
                            else:
                                vals[kname] = x
                        try:
                            res = run_concrete(prop_mod, harness, cfg, vals, seed)
                        except E.HarnessError:
                            continue
                        if res["status"] == "fail":
                            path = write_replay(prop, harness, cfg, vals, res["failed"], "perturbation of the solver model for claim '%s' (the model itself is spurious for the real transcendental functions)" % v["label"])
                            rec["violations"].append({"label": v["label"], "inputs": vals, "failed_concrete": res["failed"], "replay": path})
                            reproduced = True
                            break
                if not reproduced:
                    rec["unreproduced"].append(
                        {"label": v["label"], "tried": [(h, vl, s) for h, vl, s in tried]}
                    )
                if len(rec["violations"]) >= max_viol:
                    break
            return
        # path without violation: validate its witness against the real code
        if harness.validate and rec["witness_validated"] < max_validate:
            mdl = dyadic_refine(eng, ctx, [], quick=True) or eng.witness()
            if mdl is not None:
                vals = model_inputs(ctx, mdl)
                res = run_concrete(prop_mod, harness, cfg, vals, seed)
                if res["status"] == "ok" and fp_probe and rec["fp_probes"] < max_probe:
                    # second witness with non-representable inputs (multiples of 1/97): exercises the rounding
                    # of the real double arithmetic, which dyadic witnesses never do
                    gm = dyadic_refine(eng, ctx, [], odd=True, quick=True)
                    if gm is not None:
                        gvals = model_inputs(ctx, gm)
                        gres = run_concrete(prop_mod, harness, cfg, gvals, seed)
                        rec["fp_probes"] += 1
                        if gres["status"] == "fail":
                            res, vals = gres, gvals
                if res["status"] == "ok":
                    rec["witness_validated"] += 1
                    rec["witness_uncertain_claims"] += res["uncertain"]
                    if len(rec["samples"]) < 2:
                        rec["samples"].append(
                            {
                                "harness": harness.name,
                                "cfg": cfg,
                                "path_decisions": len(eng.decisions),
                                "witness_inputs": vals,
                                "claims_discharged": sorted({l.split(" [")[0] for l, _ in claims})[:12],
                            }
                        )
                elif res["status"] == "fail":
                    path = write_replay(prop, harness, cfg, vals, res["failed"], "witness replay of a path whose symbolic claims were all valid")
                    rec["violations"].append(
                        {
                            "label": "witness replay: " + "; ".join(res["failed"][:3]),
                            "inputs": vals,
                            "failed_concrete": res["failed"],
                            "replay": path,
                            "via": "witness",
                        }
                    )

    extra = harness.extra_globals(cfg) if harness.extra_globals else None
    try:
        with npx.installed(extra):
            npx.NP.overridden.clear()
            eng.explore(body, on_path=on_path)
    except E.Inconclusive as exc:
        rec["status"] = "inconclusive"
        rec["messages"].append("inconclusive: %s" % exc)
        # the solver gave no verdict on a claim of the current path. Before giving up, run the real code on a few
        # concrete inputs of that path (dyadic, generic, random): a claim that fails there is a genuine violation
        # with a replay; if none fails the job stays inconclusive (no verdict is ever upgraded to "held").
        try:
            ctx = state.get("ctx")
            cands = []
            for odd in (False, True):
                try:
                    m = dyadic_refine(eng, ctx, [], odd=odd, quick=True)
                except Exception:
                    m = None
                if m is not None:
                    cands.append(model_inputs(ctx, m))
            if ctx is not None and not cands:
                import random

                rng = random.Random(77 + seed)
                for attempt in range(12):
                    vals = OrderedDict()
                    lo = 1 if attempt < 8 else -40  # mostly positive values: weights, sizes and spacings are
                    for kname, c in ctx.inputs.items():
                        if c is None:
                            continue
                        vals[kname] = float(rng.randint(lo, 40)) / 8 if c.sort() == z3.RealSort() else rng.randint(1, 5)
                    cands.append(vals)
            for vals in cands:
                try:
                    res = run_concrete(prop_mod, harness, cfg, vals, seed)
                except BaseException:
                    continue
                if res["status"] == "fail":
                    path = write_replay(prop, harness, cfg, vals, res["failed"], "concrete input tried after the solver gave no verdict on a claim")
                    rec["violations"].append({"label": "concrete probe after an undecided claim: " + "; ".join(res["failed"][:3]), "inputs": vals, "failed_concrete": res["failed"], "replay": path, "via": "probe"})
                    break
        except Exception as exc2:
            rec["messages"].append("probe after undecided claim failed: %r" % (exc2,))
    except E.HarnessError as exc:
        rec["status"] = "harness-error"
        rec["messages"].append("harness error: %s\n%s" % (exc, traceback.format_exc(limit=8)))
    if rec["violations"]:
        rec["status"] = "violation"
    elif rec["unreproduced"] and rec["status"] == "ok":
        rec["status"] = "inconclusive"
        rec["messages"].append(
            "solver model(s) did not reproduce on the real code: %s"
            % json.dumps(rec["unreproduced"][:2], default=str)[:600]
        )
    st = eng.stats.as_dict()
    if st["paths"] - st["aborted_paths"] <= 0 and rec["status"] == "ok" and known_pass is None:
        rec["status"] = "inconclusive"
        rec["messages"].append("vacuous: no feasible path reached the claims")
    rec["stats"] = st
    rec["claim_labels"] = sorted(labels_seen)
    rec["functions"] = tracer.summary()
    rec["np_overrides"] = sorted(npx.NP.overridden)
    rec["wall_s"] = round(time.time() - t0, 2)
    return rec
