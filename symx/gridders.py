"""Test estimators used by the harnesses: a real BaseGridder subclass whose
prediction is an uninterpreted function of (identity, fit number, component,
easting, northing) in the symbolic run - 'an asymmetric analytic gridder' in the
strongest sense - and a fixed asymmetric polynomial in the replay."""
import numpy as np
import z3

from verde.base import BaseGridder
from verde.coordinates import get_region

from . import engine as E
from .engine import SymReal, SymNum, T

PFUN = z3.Function("P", z3.IntSort(), z3.IntSort(), z3.IntSort(), z3.RealSort(), z3.RealSort(), z3.RealSort())

# per-instance bookkeeping lives outside the estimator so that sklearn.clone/get_params see only parameters
LOG = {}


def P(ident, fit, comp, e, n):
    "the prediction of UFGridder(ident) after its fit-th fit, component comp, at (e, n)"
    if isinstance(e, SymNum) or isinstance(n, SymNum) or z3.is_expr(e) or z3.is_expr(n):
        return SymReal(PFUN(z3.IntVal(ident), z3.IntVal(fit), z3.IntVal(comp), T(e), T(n)))
    e = float(e)
    n = float(n)
    return 100.0 * ident + 10.0 * fit + 1000.0 * comp + 3.0 * e - 7.0 * n + 0.5 * e * n + 0.25 * e * e


class UFGridder(BaseGridder):
    def __init__(self, ident=1, ncomp=1):
        super().__init__()
        self.ident = ident
        self.ncomp = ncomp

    def _log(self):
        return LOG.setdefault(id(self), {"fits": [], "predicts": [], "obj": self})

    def fit(self, coordinates, data, weights=None):
        log = self._log()
        log["fits"].append({"coordinates": coordinates, "data": data, "weights": weights})
        self.fitno_ = len(log["fits"])
        self.region_ = get_region(coordinates[:2])
        return self

    def predict(self, coordinates):
        if not hasattr(self, "fitno_"):
            from sklearn.exceptions import NotFittedError

            raise NotFittedError("UFGridder is not fitted")
        e, n = coordinates[:2]
        self._log()["predicts"].append(coordinates)
        eb, nb = np.broadcast_arrays(np.asarray(e), np.asarray(n))
        sym = eb.dtype == object or nb.dtype == object
        outs = []
        for c in range(self.ncomp):
            out = np.empty(eb.shape, dtype=object if sym else float)
            for idx in np.ndindex(*eb.shape):
                out[idx] = P(self.ident, self.fitno_, c, eb[idx], nb[idx])
            outs.append(out if out.shape else out[()])
        return outs[0] if self.ncomp == 1 else tuple(outs)


def fits_of(est):
    return LOG.get(id(est), {"fits": []})["fits"]


def reset():
    LOG.clear()
