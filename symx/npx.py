"""
NumpyProxy: the object bound to the name ``np`` in verde's module globals while a
harness runs symbolically. Every attribute is real numpy except the handful of
functions below, whose C implementations cannot carry symbolic scalars; each
override is a model of the documented numpy contract and is listed in the
evidence (``stubs``) of every run that used it.
"""
import contextlib
import sys

import numpy as _np
import z3

from . import engine as E
from .engine import SymNum, SymReal, SymInt, SymBool, T


def _obj(a):
    a = _np.asarray(getattr(a, "values", a))
    return a


def is_symarr(a):
    a = _np.asarray(a)
    return a.dtype == object and any(
        isinstance(x, (SymNum, SymBool)) for x in a.ravel()
    )


def _fl(dtype):
    if dtype is None or dtype is object:
        return False
    if isinstance(dtype, SymDType):
        return False
    try:
        return _np.dtype(dtype).kind == "f"
    except TypeError:
        return False


class SymDType:
    "modelled numpy dtype carried by a SymArray (OUT-DTYPE model)"

    def __init__(self, name):
        self.name = name
        self.kind = _np.dtype(name).kind

    def __eq__(self, o):
        if isinstance(o, SymDType):
            return o.name == self.name
        try:
            return _np.dtype(o) == _np.dtype(self.name)
        except TypeError:
            return False

    def __hash__(self):
        return hash(self.name)

    def __repr__(self):
        return "SymDType(%s)" % self.name


def np_view(x):
    return x.view(_np.ndarray) if isinstance(x, _np.ndarray) else x


def _is_int_operand(x):
    if isinstance(x, SymArray):
        return x._is_int()
    if isinstance(x, (bool, int, _np.integer, SymInt)):
        return True
    if isinstance(x, _np.ndarray):
        return x.dtype.kind in "iub"
    return False


class SymArray(_np.ndarray):
    """object ndarray carrying a modelled numpy dtype: storing a real-valued term
    into an integer buffer truncates (C cast), an in-place float operation on an
    integer buffer raises numpy's casting error."""

    def __new__(cls, data, sdtype="float64"):
        obj = _np.asarray(data, dtype=object).view(cls)
        obj.sdtype = sdtype
        return obj

    def __array_finalize__(self, obj):
        self.sdtype = getattr(obj, "sdtype", "float64")

    _INT_PRESERVING = ("add", "subtract", "multiply", "power", "negative", "absolute", "positive")

    def __array_ufunc__(self, ufunc, method, *inputs, out=None, **kwargs):
        "numpy's result-type rule for the modelled dtype: integer only if every operand is integer-typed"
        plain = [np_view(x) for x in inputs]
        kw = dict(kwargs)
        if out is not None:
            kw["out"] = tuple(np_view(o) for o in out)
        res = getattr(ufunc, method)(*plain, **kw)
        if out is not None:
            return out[0] if len(out) == 1 else out
        if not isinstance(res, _np.ndarray) or res.dtype != object:
            return res
        allint = ufunc.__name__ in self._INT_PRESERVING and all(_is_int_operand(x) for x in inputs)
        return SymArray(res, "int64" if allint else "float64")

    @property
    def dtype(self):
        return SymDType(self.sdtype)

    def _is_int(self):
        return self.sdtype.startswith("int") or self.sdtype.startswith("uint")

    def _cast(self, value):
        if self._is_int():
            v = _np.asarray(value, dtype=object)
            out = _np.empty(v.shape, dtype=object)
            for idx in _np.ndindex(*v.shape):
                x = v[idx]
                out[idx] = (
                    E.sym_int(x) if isinstance(x, (SymReal, float, _np.floating)) else x
                )
            return out if v.shape else out[()]
        return value

    def __setitem__(self, key, value):
        _np.ndarray.__setitem__(self, key, self._cast(value))

    def _inplace(self, other, op, ufunc):
        if self._is_int():
            o = _np.asarray(other, dtype=object)
            if any(isinstance(x, (SymReal, float, _np.floating)) for x in o.ravel()):
                raise _np._core._exceptions._UFuncOutputCastingError(
                    ufunc, "same_kind", _np.dtype("float64"), _np.dtype(self.sdtype), 0
                )
        res = op(_np.asarray(self).view(_np.ndarray), _np.asarray(other, dtype=object))
        _np.ndarray.__setitem__(self, Ellipsis, res)
        return self

    def __iadd__(self, other):
        return self._inplace(other, lambda a, b: a + b, _np.add)

    def __isub__(self, other):
        return self._inplace(other, lambda a, b: a - b, _np.subtract)

    def __imul__(self, other):
        return self._inplace(other, lambda a, b: a * b, _np.multiply)


def _merge_minmax(vals, op):
    r = T(vals[0])
    allint = all(isinstance(v, (SymInt, int, _np.integer)) for v in vals)
    if allint:
        r = E._arith(vals[0])
    for v in vals[1:]:
        v = E._arith(v) if allint else T(v)
        r = z3.If(v < r, v, r) if op == "min" else z3.If(v > r, v, r)
    return E._wrap(r)


def _merged_median(vals):
    "median as a merged term: compare-exchange sorting network, then the middle element(s)"
    v = [T(x) for x in vals]
    n = len(v)
    for i in range(n):
        for j in range(n - 1 - i):
            a, b = v[j], v[j + 1]
            v[j], v[j + 1] = z3.If(a <= b, a, b), z3.If(a <= b, b, a)
    if n % 2:
        return E._wrap(v[n // 2])
    return E._wrap((v[n // 2 - 1] + v[n // 2]) / 2)


class SymMasked(_np.ma.MaskedArray):
    "masked object array whose min/max ignore masked cells (numpy contract) and work on symbolic entries"

    def _red(self, op):
        vals = list(self.compressed())
        if not vals:
            return _np.ma.masked
        return _merge_minmax(vals, op)

    def min(self, axis=None, **kw):
        return self._red("min")

    def max(self, axis=None, **kw):
        return self._red("max")


class MinMaxArray(_np.ndarray):
    "object ndarray whose .min()/.max() methods are merged If-terms instead of forking comparisons (numpy contract model)"

    def min(self, axis=None, **kw):
        return NP.min(_np.asarray(self).view(_np.ndarray), axis=axis)

    def max(self, axis=None, **kw):
        return NP.max(_np.asarray(self).view(_np.ndarray), axis=axis)


class _MaProxy:
    def __getattr__(self, name):
        return getattr(_np.ma, name)

    def masked_where(self, condition, a, copy=True):
        arr = _np.asarray(a)
        if arr.dtype != object:
            return _np.ma.masked_where(condition, a, copy=copy)
        return SymMasked(arr.copy() if copy else arr, mask=_np.asarray(condition, dtype=bool))


class NumpyProxy:
    ma = _MaProxy()

    def __init__(self):
        self.used = set()
        self.overridden = set()
        self.merge_compare = False
        self.real_np = _np

    def __getattr__(self, name):
        self.used.add(name)
        return getattr(_np, name)

    def _ov(self, name):
        self.overridden.add(name)

    # ---- scalars
    def isscalar(self, x):
        self._ov("isscalar")
        return isinstance(x, SymNum) or _np.isscalar(x)

    def ndim(self, x):
        if isinstance(x, (SymNum, SymBool)):
            return 0
        return _np.ndim(x)

    def broadcast_arrays(self, *args, **kw):
        "numpy's broadcast_arrays; an input carrying a modelled dtype keeps it"
        outs = _np.broadcast_arrays(*[np_view(a) if isinstance(a, SymArray) else a for a in args], **kw)
        return tuple(SymArray(o, a.sdtype) if isinstance(a, SymArray) else o for a, o in zip(args, outs))

    # ---- closeness
    def isclose(self, a, b, rtol=1e-05, atol=1e-08, equal_nan=False):
        if isinstance(a, (list, tuple)) and any(x is _np.ma.masked for x in a):
            tmp = _np.empty(len(a), dtype=object)
            for i, x in enumerate(a):
                tmp[i] = x
            a = tmp
        a = _obj(a)
        b = _obj(b)
        if a.dtype != object and b.dtype != object:
            return _np.isclose(a, b, rtol=rtol, atol=atol, equal_nan=equal_nan)
        self._ov("isclose")
        a, b = _np.broadcast_arrays(a.astype(object), b.astype(object))
        out = _np.empty(a.shape, dtype=object)
        for idx in _np.ndindex(*a.shape):
            if a[idx] is _np.ma.masked or b[idx] is _np.ma.masked:
                out[idx] = False  # numpy: a fully masked reduction is never close to a number
                continue
            out[idx] = abs(a[idx] - b[idx]) <= atol + rtol * abs(b[idx])
        return out

    def allclose(self, a, b, rtol=1e-05, atol=1e-08, equal_nan=False):
        c = self.isclose(a, b, rtol, atol, equal_nan)
        if c.dtype != object:
            return bool(_np.all(c))
        self._ov("allclose")
        terms = [E.to_term(x) for x in c.ravel()]
        return bool(SymBool(z3.And(*terms))) if terms else True

    # ---- pandas-safe reductions
    def mean(self, a, *args, **kw):
        return _np.mean(_obj(a), *args, **kw)

    def var(self, a, *args, **kw):
        return _np.var(_obj(a), *args, **kw)

    def median(self, a, axis=None, **kw):
        arr = _obj(a)
        if arr.dtype != object or kw or not is_symarr(arr):
            return _np.median(arr, axis=axis, **kw)
        self._ov("median")
        if axis is None:
            return _merged_median(list(arr.ravel()))
        moved = _np.moveaxis(arr, axis, -1)
        out = _np.empty(moved.shape[:-1], dtype=object)
        for idx in _np.ndindex(*out.shape):
            out[idx] = _merged_median(list(moved[idx]))
        return out

    def average(self, a, axis=None, weights=None, **kw):
        if weights is not None:
            weights = _obj(weights)
        return _np.average(_obj(a), axis=axis, weights=weights, **kw)

    # ---- merged min / max
    def _minmax(self, op, a, axis=None, **kw):
        arr = _obj(a)
        if arr.dtype != object or kw or not is_symarr(arr):
            return getattr(_np, op)(arr, axis=axis, **kw)
        self._ov(op)
        if arr.size == 0:
            raise ValueError("zero-size array to reduction operation")
        if axis is None:
            return _merge_minmax(list(arr.ravel()), op)
        moved = _np.moveaxis(arr, axis, -1)
        out = _np.empty(moved.shape[:-1], dtype=object)
        for idx in _np.ndindex(*out.shape):
            out[idx] = _merge_minmax(list(moved[idx]), op)
        return out

    def min(self, a, axis=None, **kw):
        return self._minmax("min", a, axis, **kw)

    def max(self, a, axis=None, **kw):
        return self._minmax("max", a, axis, **kw)

    amin = min
    amax = max
    nanmin = min
    nanmax = max

    def _elementwise2(self, name, f, a, b):
        a = _obj(a)
        b = _obj(b)
        if a.dtype != object and b.dtype != object and not isinstance(a[()] if a.ndim == 0 else None, SymNum):
            return getattr(_np, name)(a, b)
        self._ov(name)
        a, b = _np.broadcast_arrays(a.astype(object), b.astype(object))
        out = _np.empty(a.shape, dtype=object)
        for idx in _np.ndindex(*a.shape):
            out[idx] = f(a[idx], b[idx])
        return out if out.shape else out[()]

    def maximum(self, a, b):
        return self._elementwise2("maximum", lambda x, y: E.sym_max(x, y), a, b)

    def minimum(self, a, b):
        return self._elementwise2("minimum", lambda x, y: E.sym_min(x, y), a, b)

    def hypot(self, a, b):
        def f(x, y):
            if not isinstance(x, SymNum) and not isinstance(y, SymNum):
                return _np.hypot(x, y)
            tx, ty = T(x), T(y)
            h = E.HYPOT(tx, ty)
            E.ENGINE.add(h >= 0, h * h == tx * tx + ty * ty)
            return SymReal(h)

        return self._elementwise2("hypot", f, a, b)

    def arctan2(self, y, x):
        def f(yy, xx):
            if not isinstance(xx, SymNum) and not isinstance(yy, SymNum):
                return _np.arctan2(yy, xx)
            ty, tx = T(yy), T(xx)
            ang = E.ATAN2(ty, tx)
            h = E.HYPOT(tx, ty)
            E.ENGINE.add(h >= 0, h * h == tx * tx + ty * ty)
            # defining property of atan2 (for (x, y) != (0, 0)); atan2(0, 0) = 0
            E.ENGINE.add(E.COS(ang) * h == tx, E.SIN(ang) * h == ty)
            E.ENGINE.add(
                z3.Implies(z3.And(tx == 0, ty == 0), z3.And(E.COS(ang) == 1, E.SIN(ang) == 0))
            )
            return SymReal(ang)

        return self._elementwise2("arctan2", f, y, x)

    # ---- allocation
    def _alloc(self, base, shape_or_like, dtype, like, fill, kw):
        if like:
            a = shape_or_like
            av = _np.asarray(a)
            if isinstance(dtype, SymDType) or (
                dtype is None and isinstance(a, SymArray)
            ):
                out = _np.empty(av.shape, dtype=object)
                out[...] = 0 if fill is None else fill
                return SymArray(out, dtype.name if dtype is not None else a.sdtype)
            if av.dtype == object and (dtype is None or _fl(dtype)):
                self._ov(base)
                out = _np.empty(av.shape, dtype=object)
                out[...] = 0.0 if fill is None else fill
                return out
            if self.merge_compare and av.dtype == object and dtype is bool:
                return _np.empty(av.shape, dtype=object)
            return getattr(_np, base)(av if av.dtype != object else av, dtype=dtype, **kw)
        if isinstance(dtype, SymDType):
            out = _np.empty(shape_or_like, dtype=object)
            out[...] = 0 if fill is None else (int(fill) if dtype.kind in "iu" else fill)
            return SymArray(out, dtype.name)
        if E.ENGINE.active and _fl(dtype):
            self._ov(base)
            out = _np.empty(shape_or_like, dtype=object)
            out[...] = 0.0 if fill is None else fill
            return out
        return getattr(_np, base)(shape_or_like, dtype=dtype, **kw)

    def empty(self, shape, dtype=float, **kw):
        return self._alloc("empty", shape, dtype, False, None, kw)

    def zeros(self, shape, dtype=float, **kw):
        return self._alloc("zeros", shape, dtype, False, 0.0, kw)

    def ones(self, shape, dtype=float, **kw):
        return self._alloc("ones", shape, dtype, False, 1.0, kw)

    def full(self, shape, fill_value, dtype=None, **kw):
        if isinstance(fill_value, SymNum) or (E.ENGINE.active and (dtype is None or _fl(dtype)) and isinstance(fill_value, float)):
            out = _np.empty(shape, dtype=object)
            out[...] = fill_value
            return out
        return _np.full(shape, fill_value, dtype=dtype, **kw)

    def empty_like(self, a, dtype=None, **kw):
        return self._alloc("empty_like", a, dtype, True, None, kw)

    def zeros_like(self, a, dtype=None, **kw):
        return self._alloc("zeros_like", a, dtype, True, 0.0, kw)

    def ones_like(self, a, dtype=None, **kw):
        return self._alloc("ones_like", a, dtype, True, 1.0, kw)

    # ---- arange with symbolic bounds: ceil((stop - start) / step) nodes start + k*step (exact reals)
    def linspace(self, start, stop, num=50, *args, dtype=None, **kw):
        "exact-real semantics: a floating dtype requested for symbolic end points is not modelled (object array)"
        if any(isinstance(v, SymNum) for v in (start, stop)) and dtype is not None:
            if _np.dtype(dtype).kind != "f":
                raise E.HarnessError("linspace of symbolic end points with dtype %r is not modelled" % (dtype,))
            self._ov("linspace")
            return _np.linspace(start, stop, num, *args, **kw)
        return _np.linspace(start, stop, num, *args, **({} if dtype is None else {"dtype": dtype}), **kw)

    def arange(self, *args, **kw):
        if not any(isinstance(a, SymNum) for a in args):
            return _np.arange(*args, **kw)
        self._ov("arange")
        if len(args) == 1:
            start, stop, step = 0, args[0], 1
        elif len(args) == 2:
            start, stop, step = args[0], args[1], 1
        else:
            start, stop, step = args[:3]
        import math

        cnt = math.ceil((stop - start) / step)
        k = int(cnt) if not isinstance(cnt, int) else cnt
        k = max(k, 0)
        out = _np.empty(k, dtype=object)
        for i in range(k):
            out[i] = start + i * step
        return out

    # ---- conversions that involve a modelled dtype
    def asarray(self, a, dtype=None, **kw):
        if isinstance(dtype, SymDType):
            self._ov("asarray")
            src = _np.asarray(a, dtype=object) if not isinstance(a, _np.ndarray) else a
            out = SymArray(_np.empty(_np.shape(src), dtype=object), dtype.name)
            _np.ndarray.__setitem__(out, Ellipsis, out._cast(_np.asarray(src, dtype=object)))
            return out
        if isinstance(a, SymArray) and dtype is None:
            return a  # keeps the modelled dtype (real numpy would return the array itself too)
        if _fl(dtype) and E.ENGINE.active and self._has_sym(a):
            self._ov("asarray")
            return _np.asarray(a, dtype=object)  # a float buffer cannot hold terms (exact-real semantics)
        return _np.asarray(a, dtype=dtype, **kw)

    def array(self, a, dtype=None, **kw):
        if isinstance(dtype, SymDType):
            return self.asarray(a, dtype=dtype)
        if _fl(dtype) and E.ENGINE.active and self._has_sym(a):
            self._ov("array")
            return _np.array(a, dtype=object)
        return _np.array(a, dtype=dtype, **kw)

    @staticmethod
    def _has_sym(a):
        try:
            arr = _np.asarray(a, dtype=object)
        except Exception:  # noqa: BLE001
            return False
        return any(isinstance(x, (SymNum, SymBool)) for x in arr.ravel())

    # ---- dtype arithmetic on modelled dtypes (delegated to real numpy on the modelled names)
    def _dt(self, d):
        if isinstance(d, SymDType):
            return _np.dtype(d.name), True
        if isinstance(d, SymArray):
            return _np.dtype(d.sdtype), True
        if isinstance(d, _np.ndarray) and d.dtype == object:
            return _np.dtype("float64"), True
        return d, False

    def promote_types(self, a, b):
        (da, sa), (db, sb) = self._dt(a), self._dt(b)
        r = _np.promote_types(da, db)
        return SymDType(r.name) if (sa or sb) else r

    def result_type(self, *args):
        conv = [self._dt(a) for a in args]
        r = _np.result_type(*[c[0] for c in conv])
        return SymDType(r.name) if any(c[1] for c in conv) else r

    # ---- merged comparisons (only when merge_compare is switched on by a harness)
    def _cmpfn(self, name, f, a, b, out=None):
        if not self.merge_compare:
            return getattr(_np, name)(a, b, out=out) if out is not None else getattr(_np, name)(a, b)
        self._ov(name)
        a = _np.asarray(a, dtype=object)
        b = _np.asarray(b, dtype=object)
        a, b = _np.broadcast_arrays(a, b)
        if out is None:
            out = _np.empty(a.shape, dtype=object)
        for idx in _np.ndindex(*a.shape):
            out[idx] = f(a[idx], b[idx])
        return out

    def greater_equal(self, a, b, out=None):
        return self._cmpfn("greater_equal", lambda x, y: x >= y, a, b, out)

    def less_equal(self, a, b, out=None):
        return self._cmpfn("less_equal", lambda x, y: x <= y, a, b, out)

    def logical_and(self, a, b, out=None):
        def f(x, y):
            if isinstance(x, SymBool) or isinstance(y, SymBool):
                return SymBool(z3.And(E.to_term(x), E.to_term(y)))
            return bool(x) and bool(y)

        return self._cmpfn("logical_and", f, a, b, out)

    # ---- nan_to_num: numpy writes into the argument when copy=False, even without NaNs
    def nan_to_num(self, x, copy=True, nan=0.0, posinf=None, neginf=None):
        xa = _np.asarray(x)
        if xa.dtype != object:
            return _np.nan_to_num(x, copy=copy, nan=nan, posinf=posinf, neginf=neginf)
        self._ov("nan_to_num")
        from . import symfp

        out = xa.copy() if copy else xa
        if not copy and not xa.flags.writeable:
            raise ValueError("assignment destination is read-only")
        for idx in _np.ndindex(*xa.shape):
            v = xa[idx]
            if isinstance(v, symfp.SymFP):
                out[idx] = symfp.nan_to_num_scalar(v)
            else:
                out[idx] = v  # Real semantics: no NaN/inf; the write itself is what matters
        return out


NP = NumpyProxy()

# names of verde modules whose globals are rebound during a symbolic run
VERDE_MODULES = [
    "verde.coordinates",
    "verde.utils",
    "verde.base.utils",
    "verde.base.base_classes",
    "verde.base.least_squares",
    "verde.blockreduce",
    "verde.chain",
    "verde.distances",
    "verde.io",
    "verde.mask",
    "verde.model_selection",
    "verde.neighbors",
    "verde.projections",
    "verde.scipygridder",
    "verde.spline",
    "verde.synthetic",
    "verde.trend",
    "verde.vector",
]


_ACTIVE = []
_MISSING = object()


def _restore(entries):
    for mod, name, old, _new in reversed(entries):
        if old is _MISSING:
            try:
                delattr(mod, name)
            except AttributeError:
                pass
        else:
            setattr(mod, name, old)


@contextlib.contextmanager
def installed(extra=None):
    """Rebind ``np`` / ``int`` / ``float`` / ``min`` / ``max`` in every verde
    module's globals (and whatever ``extra`` = {(module, name): obj} lists) for the
    duration of a symbolic run; restore afterwards."""
    import importlib

    entries = []

    def setg(mod, name, obj):
        entries.append((mod, name, mod.__dict__.get(name, _MISSING), obj))
        setattr(mod, name, obj)

    import verde  # noqa: F401

    _ACTIVE.append(entries)
    try:
        for mn in VERDE_MODULES:
            importlib.import_module(mn)
            mod = sys.modules[mn]
            if "np" in mod.__dict__:
                if mod.__dict__["np"] is not _np and mod.__dict__["np"] is not NP:
                    raise E.HarnessError("%s.np is not numpy" % mn)
                setg(mod, "np", NP)
            setg(mod, "int", E.sym_int)
            setg(mod, "float", E.sym_float)
            setg(mod, "min", E.sym_min)
            setg(mod, "max", E.sym_max)
        for (mn, name), obj in (extra or {}).items():
            mod = sys.modules[mn] if isinstance(mn, str) else mn
            setg(mod, name, obj)
        yield NP
    finally:
        _ACTIVE.pop()
        _restore(entries)


@contextlib.contextmanager
def suspended():
    "temporarily undo every rebinding (used while a model is replayed on the unstubbed code)"
    stacks = list(_ACTIVE)
    for entries in reversed(stacks):
        _restore(entries)
    try:
        yield
    finally:
        for entries in stacks:
            for mod, name, _old, new in entries:
                setattr(mod, name, new)
