"""
Runner: ``python -m symx.run <quick|thorough> <Cxx>`` / ``replay <path>`` /
``worker``. Jobs = (harness, configuration[, known-finding class]) are executed
by worker subprocesses (one z3 context each) under a wall-clock cap.
"""
import importlib
import json
import os
import queue
import select
import subprocess
import sys
import threading
import time

VERIF = os.path.dirname(os.path.dirname(os.path.abspath(__file__)))
PY = os.path.join(VERIF, ".venv", "bin", "python")
EXIT_OK, EXIT_VIOLATION, EXIT_INCONCLUSIVE = 0, 1, 3


def worker_main():
    sys.path.insert(0, VERIF)
    from symx import harness as H

    out = os.fdopen(os.dup(1), "w")
    # keep stray prints of the code under test away from the result channel
    devnull = os.open(os.devnull, os.O_WRONLY)
    os.dup2(devnull, 1)
    try:
        import dask

        # the engine is single-threaded by design: delayed graphs are computed synchronously
        dask.config.set(scheduler="synchronous")
    except Exception:  # noqa: BLE001
        pass
    for line in sys.stdin:
        job = json.loads(line)
        try:
            mod = importlib.import_module("props.%s" % job["property"].lower())
            h = {x.name: x for x in mod.HARNESSES}[job["harness"]]
            cfg = h.configs(job["tier"], job["seed"])[job["cfg_index"]]
            rec = H.run_job(
                job["property"], mod, h, cfg, job["tier"], job["seed"], job.get("known_pass")
            )
        except BaseException as exc:  # noqa: BLE001
            import traceback

            rec = {
                "property": job["property"],
                "harness": job["harness"],
                "cfg": job.get("cfg_index"),
                "known_pass": job.get("known_pass"),
                "status": "harness-error",
                "messages": ["worker exception: %r\n%s" % (exc, traceback.format_exc(limit=10))],
                "violations": [],
                "stats": {},
            }
        out.write("@@RESULT " + json.dumps(rec, default=str) + "\n")
        out.flush()


class Worker:
    def __init__(self):
        self.proc = None

    def start(self):
        env = dict(os.environ)
        # VERIF_REPO (development only): evaluate a scratch checkout of verde instead of /repo
        env["PYTHONPATH"] = os.pathsep.join([p for p in (os.environ.get("VERIF_REPO"), VERIF) if p])
        env["FATIANDO_VERDE_VERIF"] = "1"
        env.setdefault("OMP_NUM_THREADS", "1")
        env.setdefault("OPENBLAS_NUM_THREADS", "1")
        self.proc = subprocess.Popen(
            [PY, "-m", "symx.run", "worker"],
            stdin=subprocess.PIPE,
            stdout=subprocess.PIPE,
            stderr=subprocess.DEVNULL,
            text=True,
            cwd=VERIF,
            env=env,
        )

    def run(self, job, timeout):
        if self.proc is None or self.proc.poll() is not None:
            self.start()
        self.proc.stdin.write(json.dumps(job) + "\n")
        self.proc.stdin.flush()
        deadline = time.time() + timeout
        buf = ""
        fd = self.proc.stdout.fileno()
        while True:
            left = deadline - time.time()
            if left <= 0:
                self.kill()
                return None, "timeout after %ds" % timeout
            r, _, _ = select.select([fd], [], [], min(left, 1.0))
            if not r:
                if self.proc.poll() is not None:
                    return None, "worker died (exit %s)" % self.proc.returncode
                continue
            chunk = os.read(fd, 1 << 16).decode("utf-8", "replace")
            if not chunk:
                return None, "worker closed its pipe (exit %s)" % self.proc.poll()
            buf += chunk
            while "\n" in buf:
                line, buf = buf.split("\n", 1)
                if line.startswith("@@RESULT "):
                    return json.loads(line[9:]), None

    def kill(self):
        if self.proc is not None:
            try:
                self.proc.kill()
                self.proc.wait(timeout=5)
            except Exception:  # noqa: BLE001
                pass
            self.proc = None

    def close(self):
        if self.proc is not None and self.proc.poll() is None:
            try:
                self.proc.stdin.close()
                self.proc.wait(timeout=5)
            except Exception:  # noqa: BLE001
                self.kill()


def run_jobs(jobs, nworkers, verbose):
    q = queue.Queue()
    for j in jobs:
        q.put(j)
    results = []
    lock = threading.Lock()

    def loop():
        w = Worker()
        while True:
            try:
                job = q.get_nowait()
            except queue.Empty:
                break
            t0 = time.time()
            rec, err = w.run(job, job["timeout_s"])
            if rec is None:
                rec = {
                    "property": job["property"],
                    "harness": job["harness"],
                    "cfg": job["cfg_index"],
                    "known_pass": job.get("known_pass"),
                    "status": "inconclusive",
                    "messages": [err],
                    "violations": [],
                    "stats": {},
                }
            rec["job"] = job
            with lock:
                results.append(rec)
                if verbose:
                    st = rec.get("stats", {})
                    print(
                        "  [%s] %-34s cfg#%-3d %-12s paths=%s queries=%s claims=%s/%s validated=%s %.1fs%s"
                        % (
                            job["property"],
                            job["harness"] + ("~" + job["known_pass"] if job.get("known_pass") else ""),
                            job["cfg_index"],
                            rec["status"],
                            st.get("paths"),
                            st.get("queries"),
                            st.get("claims_valid"),
                            st.get("claims"),
                            rec.get("witness_validated"),
                            time.time() - t0,
                            (" :: " + "; ".join(m[:300] for m in rec.get("messages", [])))
                            if rec.get("messages")
                            else "",
                        ),
                        flush=True,
                    )
        w.close()

    threads = [threading.Thread(target=loop) for _ in range(max(1, min(nworkers, len(jobs))))]
    for t in threads:
        t.start()
    for t in threads:
        t.join()
    return results


def main(argv):
    if len(argv) >= 1 and argv[0] == "worker":
        return worker_main()
    if len(argv) >= 2 and argv[0] == "replay":
        sys.path.insert(0, VERIF)
        ns = {}
        with open(argv[1]) as f:
            src = f.read()
        exec(compile(src, argv[1], "exec"), {"__name__": "replay"}, ns)  # noqa: S102
        from symx.harness import replay_payload

        return replay_payload(ns["PAYLOAD"])
    tier, prop = argv[0], argv[1].upper()
    only = argv[2] if len(argv) > 2 else None
    seed = int(os.environ.get("VERIF_SEED", "0") or 0)
    verbose = os.environ.get("VERIF_QUIET", "") == ""
    sys.path.insert(0, VERIF)
    if os.environ.get("VERIF_REPO"):
        sys.path.insert(0, os.environ["VERIF_REPO"])
    os.environ["FATIANDO_VERDE_VERIF"] = "1"
    t0 = time.time()
    from symx import harness as H

    mod = importlib.import_module("props.%s" % prop.lower())
    jobs = []
    hmap = {}
    for h in mod.HARNESSES:
        if only and h.name != only:
            continue
        hmap[h.name] = h
        cfgs = h.configs(tier, seed)
        opened = H.open_known(prop, h.name)
        for i in range(len(cfgs)):
            base = {
                "property": prop,
                "harness": h.name,
                "cfg_index": i,
                "tier": tier,
                "seed": seed,
                "timeout_s": h.timeout_s * (3 if tier == "thorough" else 1),
            }
            jobs.append(dict(base))
            for k in opened:
                if k.get("cfg_index") is not None and k["cfg_index"] != i:
                    continue
                jobs.append(dict(base, known_pass=k["id"]))
    nworkers = int(os.environ.get("VERIF_JOBS", "0") or 0) or min(16, os.cpu_count() or 4)
    print("symx %s %s: %d jobs on %d workers (seed %d)" % (tier, prop, len(jobs), nworkers, seed), flush=True)
    results = run_jobs(jobs, nworkers, verbose)
    rc = report(prop, tier, seed, mod, hmap, results, time.time() - t0)
    return rc


def report(prop, tier, seed, mod, hmap, results, wall):
    from symx import harness as H

    known = [k for k in H.load_known() if k["property"] == prop]
    violations = []
    inconclusive = []
    known_seen = []
    for r in results:
        kp = r.get("known_pass")
        if kp:
            if r["status"] == "violation":
                known_seen.append((kp, r))
            elif r["status"] in ("inconclusive", "harness-error"):
                inconclusive.append(r)
            continue
        if r["status"] == "violation":
            violations.append(r)
        elif r["status"] in ("inconclusive", "harness-error"):
            inconclusive.append(r)
    # known findings: the class must still fail on its canonical input
    known_lines = []
    for k in known:
        if k["status"] != "open":
            continue
        hits = [r for kp, r in known_seen if kp == k["id"]]
        if not hits:
            continue
        h = hmap.get(k["harness"])
        ok = True
        if h is not None and k.get("canonical") is not None:
            cfg = h.configs(tier, seed)[k.get("canonical_cfg_index", 0)]
            res = H.run_concrete(mod, h, cfg, k["canonical"], seed)
            ok = res["status"] == "fail"
        if ok:
            known_lines.append("KNOWN-FINDING: property=%s %s" % (prop, k["what"]))
    tot = {"paths": 0, "queries": 0, "solver_time_s": 0.0, "claims": 0, "claims_valid": 0, "branch_decisions": 0, "path_steps": 0, "unknown": 0, "aborted_paths": 0, "crosschecked_with_cvc5": 0, "cross_disagreements": 0}
    by_solver = {}
    functions = {}
    overrides = set()
    samples = []
    validated = 0
    fp_probes = 0
    labels = {}
    for r in results:
        st = r.get("stats") or {}
        for k in tot:
            tot[k] += st.get(k, 0)
        for k, v in (st.get("by_solver") or {}).items():
            by_solver[k] = by_solver.get(k, 0) + v
        functions.update(r.get("functions") or {})
        overrides.update(r.get("np_overrides") or [])
        validated += r.get("witness_validated", 0)
        fp_probes += r.get("fp_probes", 0)
        for s in r.get("samples") or []:
            if len(samples) < 8:
                samples.append(s)
        labels.setdefault(r["harness"], set()).update(r.get("claim_labels") or [])
    feasible = tot["paths"] - tot["aborted_paths"]
    if not samples:
        samples = [{"note": "no violation-free path was sampled", "jobs": len(results)}]
    import z3

    ev = {
        "property_id": prop,
        "tier": tier,
        "seed": seed,
        "level": "model_checking",
        "coverage": {
            "states": max(feasible, 0),
            "transitions": tot["path_steps"],
            "forks_decided_by_solver": tot["branch_decisions"],
            "traces_validated_against_impl": validated,
            "of_which_also_with_non_representable_inputs": fp_probes,
            "samples": samples,
            "exhaustive": False,
            "obligations": tot["claims"],
            "discharged": tot["claims_valid"],
            "jobs": len(results),
            "queries": {"total": tot["queries"], "by_solver": by_solver, "unknown": tot["unknown"]},
            "solver_time_s": round(tot["solver_time_s"], 2),
            "solver_versions": {"z3": z3.get_version_string(), "cvc5": _cvc5_version()},
            "crosschecked_with_cvc5": tot["crosschecked_with_cvc5"],
            "functions_encoded": functions,
            "numpy_overrides_used": sorted(overrides),
            "harnesses": {
                n: {
                    "bounds": h.bounds,
                    "stubs": h.stubs,
                    "outside_claim": h.outside,
                    "configs": len(h.configs(tier, seed)),
                    "claims": sorted(labels.get(n, [])),
                }
                for n, h in hmap.items()
            },
            "known_findings_seen": known_lines,
            "inconclusive_jobs": [
                {"harness": r["harness"], "cfg": r.get("cfg"), "messages": r.get("messages")}
                for r in inconclusive
            ],
            "explanation": "feasible symbolic paths of the real verde functions (states), each claim discharged by z3/cvc5 as a validity query (obligations/discharged), path witnesses re-run on the unstubbed code (traces_validated_against_impl)",
        },
        "assumptions": sorted(set(getattr(mod, "ASSUMPTIONS", []))),
        "wall_s": round(wall, 2),
        "violations": sum(len(r["violations"]) for r in violations),
    }
    evdir = os.environ.get("VERIF_EVIDENCE_DIR") or os.path.join(VERIF, "evidence")
    os.makedirs(evdir, exist_ok=True)
    with open(os.path.join(evdir, "%s.json" % prop), "w") as f:
        json.dump(ev, f, indent=1, default=str)
    for l in known_lines:
        print(l)
    print(
        "symx %s %s: %d jobs, %d feasible paths, %d/%d claims valid, %d queries (%.1fs solver), %d witnesses validated, wall %.1fs"
        % (tier, prop, len(results), feasible, tot["claims_valid"], tot["claims"], tot["queries"], tot["solver_time_s"], validated, wall)
    )
    if violations:
        seen = set()
        for r in violations:
            for v in r["violations"]:
                if v["replay"] in seen:
                    continue
                seen.add(v["replay"])
                print("  violated claim [%s]: %s inputs=%s" % (r["harness"], v["label"], json.dumps(v["inputs"], default=str)[:400]))
                print("VIOLATION property=%s replay=%s" % (prop, v["replay"]))
        return EXIT_VIOLATION
    if inconclusive:
        for r in inconclusive:
            print("INCONCLUSIVE [%s cfg %s]: %s" % (r["harness"], r.get("cfg"), "; ".join(m[:500] for m in r.get("messages", []))))
        return EXIT_INCONCLUSIVE
    return EXIT_OK


def _cvc5_version():
    try:
        import cvc5

        return cvc5.__version__
    except Exception:  # noqa: BLE001
        return "?"


if __name__ == "__main__":
    sys.exit(main(sys.argv[1:]) or 0)
