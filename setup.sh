#!/bin/bash
# Build the overlay venv /verif/.venv (offline): /venv's site-packages + /repo + z3-solver + cvc5.
set -e
cd "$(dirname "$0")"
V=.venv
if [ -x $V/bin/python ] && $V/bin/python -c "import z3, cvc5, verde, numpy" 2>/dev/null; then
  exit 0
fi
rm -rf $V
/venv/bin/python -m venv $V
SP=$($V/bin/python -c "import sysconfig; print(sysconfig.get_paths()['purelib'])")
printf '/venv/lib/python3.12/site-packages\n/repo\n' > "$SP/overlay.pth"
PIP_NO_INDEX=1 $V/bin/pip install -q --no-index --find-links /opt/veriftools/wheels z3-solver cvc5 >/dev/null
$V/bin/python -c "import z3, cvc5, verde, numpy; print('overlay venv ok: z3', z3.get_version_string(), 'verde from', verde.__file__)"
